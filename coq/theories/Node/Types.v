(* Node model: payloads, blocks, callbacks, state, script-consuming monad.
   The trace records, with every callback, the node state at the instant the callback is made. *)
From DbftV Require Export Base.
From RecordUpdate Require Export RecordSet.
Export RecordSetNotations.

Definition hash := list Z.
Definition key := Z.
Definition tx := Z.
Definition hash_eqb : hash -> hash -> bool := list_eqb Z.eqb.
Definition tx_hash (t : tx) : hash := [9; t].

(* ideal signature / pre-commit data: who produced it, over which (pre-)block hash *)
Record sigv := mkSig { sg_key : key; sg_hash : hash }.
Definition sigv_eqb (a b : sigv) := Z.eqb (sg_key a) (sg_key b) && hash_eqb (sg_hash a) (sg_hash b).

Inductive mtype := ChangeViewT | PrepareRequestT | PrepareResponseT | CommitT | PreCommitT | RecoveryRequestT | RecoveryMessageT.
Definition mtype_code (t : mtype) : Z :=
  match t with ChangeViewT => 0 | PrepareRequestT => 32 | PrepareResponseT => 33 | CommitT => 48
             | PreCommitT => 49 | RecoveryRequestT => 64 | RecoveryMessageT => 65 end.
Definition mtype_eqb (a b : mtype) := Z.eqb (mtype_code a) (mtype_code b).

(* change view reasons *)
Definition CVTimeout := 0. Definition CVChangeAgreement := 1. Definition CVTxNotFound := 2.
Definition CVTxInvalid := 4. Definition CVBlockRejectedByPolicy := 5.

Inductive body0 :=
| BChangeView (newview reason ts : Z)
| BPrepareRequest (ts nonce : Z) (hashes : list hash)
| BPrepareResponse (prep : hash)
| BCommit (sg : sigv)
| BPreCommit (dt : sigv)
| BRecoveryRequest (ts : Z).

Record payload0 := mkP0 { p0_height : Z; p0_view : Z; p0_idx : Z; p0_body : body0 }.

Inductive body :=
| B0 (b : body0)
| BRecoveryMessage (ps : list payload0).

Record payload := mkP { p_height : Z; p_view : Z; p_idx : Z; p_body : body }.

#[export] Instance eta_payload : Settable _ := settable! mkP <p_height; p_view; p_idx; p_body>.
Definition lift0 (p : payload0) : payload := mkP (p0_height p) (p0_view p) (p0_idx p) (B0 (p0_body p)).
Definition body0_type (b : body0) : mtype :=
  match b with BChangeView _ _ _ => ChangeViewT | BPrepareRequest _ _ _ => PrepareRequestT
             | BPrepareResponse _ => PrepareResponseT | BCommit _ => CommitT | BPreCommit _ => PreCommitT
             | BRecoveryRequest _ => RecoveryRequestT end.
Definition p_type (p : payload) : mtype :=
  match p_body p with B0 b => body0_type b | BRecoveryMessage _ => RecoveryMessageT end.

(* canonical encoding = hash (injective by construction; lemma in the proofs) *)
Fixpoint enc_hashes (l : list hash) : list Z :=
  match l with [] => [] | h :: t => zlen h :: h ++ enc_hashes t end.
Definition enc_body0 (b : body0) : list Z :=
  match b with
  | BChangeView nv r ts => [nv; r; ts]
  | BPrepareRequest ts n hs => ts :: n :: zlen hs :: enc_hashes hs
  | BPrepareResponse h => zlen h :: h
  | BCommit s => sg_key s :: zlen (sg_hash s) :: sg_hash s
  | BPreCommit s => sg_key s :: zlen (sg_hash s) :: sg_hash s
  | BRecoveryRequest ts => [ts]
  end.
Definition enc_payload0 (p : payload0) : list Z :=
  mtype_code (body0_type (p0_body p)) :: p0_height p :: p0_view p :: p0_idx p :: enc_body0 (p0_body p).
Definition payload_hash (p : payload) : hash :=
  match p_body p with
  | B0 b => mtype_code (body0_type b) :: p_height p :: p_view p :: p_idx p :: enc_body0 b
  | BRecoveryMessage ps => 65 :: p_height p :: p_view p :: p_idx p :: zlen ps :: flat_map (fun q => let e := enc_payload0 q in zlen e :: e) ps
  end.
Definition payload_eqb (a b : payload) : bool := hash_eqb (payload_hash a) (payload_hash b).
Definition payload0_eqb (a b : payload0) : bool := list_eqb Z.eqb (enc_payload0 a) (enc_payload0 b).

(* accessors used by the library; defaults only on ill-typed use, which dispatch excludes *)
Definition cv_newview (p : payload) : Z := match p_body p with B0 (BChangeView nv _ _) => nv | _ => 0 end.
Definition resp_prephash (p : payload) : hash := match p_body p with B0 (BPrepareResponse h) => h | _ => [] end.
Definition commit_sig (p : payload) : sigv := match p_body p with B0 (BCommit s) => s | _ => mkSig (-1) [] end.
Definition precommit_data (p : payload) : sigv := match p_body p with B0 (BPreCommit s) => s | _ => mkSig (-1) [] end.

(* ---- blocks ---- *)
Record blockobj := mkBlock {
  b_index : Z; b_prev : hash; b_ts : Z; b_nonce : Z; b_hashes : list hash;
  b_final : bool;             (* final block of an anti-MEV height (function of the pre-block) *)
  b_sig : option sigv;        (* set by Sign *)
  b_txs : option (list tx)    (* set by SetTransactions *)
}.
#[export] Instance eta_block : Settable _ := settable! mkBlock <b_index; b_prev; b_ts; b_nonce; b_hashes; b_final; b_sig; b_txs>.
Definition block_hash (b : blockobj) : hash :=
  (if b_final b then 2 else 1) :: b_index b :: zlen (b_prev b) :: b_prev b ++ b_ts b :: b_nonce b :: zlen (b_hashes b) :: enc_hashes (b_hashes b).
Definition block_verify (pub : key) (b : blockobj) (s : sigv) : bool := Z.eqb (sg_key s) pub && hash_eqb (sg_hash s) (block_hash b).

Record preblockobj := mkPreBlock {
  pb_index : Z; pb_prev : hash; pb_ts : Z; pb_nonce : Z; pb_hashes : list hash;
  pb_data : option sigv; pb_txs : option (list tx)
}.
#[export] Instance eta_preblock : Settable _ := settable! mkPreBlock <pb_index; pb_prev; pb_ts; pb_nonce; pb_hashes; pb_data; pb_txs>.
Definition preblock_hash (b : preblockobj) : hash :=
  3 :: pb_index b :: zlen (pb_prev b) :: pb_prev b ++ pb_ts b :: pb_nonce b :: zlen (pb_hashes b) :: enc_hashes (pb_hashes b).
Definition preblock_verify (pub : key) (b : preblockobj) (s : sigv) : bool := Z.eqb (sg_key s) pub && hash_eqb (sg_hash s) (preblock_hash b).

(* ---- callbacks (one script element per invocation) ---- *)
Inductive call :=
| CNow (t : Z)
| CHeight (h : Z) | CPrevHash (x : hash) | CValidators (vs : list key) | CKeyPair (idx : Z) (k : key)
| CWatchOnly (b : bool) | CTimePerBlock (d : Z) | CMaxTimePerBlock (d : Z)
| CGetVerified (txs : list tx) | CGetTx (h : hash) (r : option tx)
| CVerifyBlock (bh : hash) (isnil : bool) (ok : bool) | CVerifyPreBlock (bh : hash) (isnil : bool) (ok : bool)
| CVerifyPrepareRequest (p : payload) (ok : bool) | CVerifyPrepareResponse (p : payload) (ok : bool)
| CVerifyCommit (p : payload) (ok : bool) | CVerifyPreCommit (p : payload) (ok : bool)
| CNewBlock (ok : bool) | CNewPreBlock (ok : bool)
| CNonce (n : Z)
| CRecv (t : mtype) (from height view : Z)        (* one per nested OnReceive invocation *)
| CBroadcast (p : payload)
| CTimerReset (h v d : Z) | CTimerExtend (d : Z) | CTimerHeight (h : Z) | CTimerView (v : Z)
| CProcessBlock (bh : hash) (err : bool) | CProcessPreBlock (bh : hash) (err : bool)
| CRequestTx (hs : list hash) | CSubscribe | CStopTxFlow
| CSign (bh : hash) | CSetData (bh : hash)
| CFatal.

(* ---- state ---- *)
Record inbox := mkInbox { ib_prepare : list (Z * payload); ib_chviews : list (Z * payload);
                          ib_precommit : list (Z * payload); ib_commit : list (Z * payload) }.
#[export] Instance eta_inbox : Settable _ := settable! mkInbox <ib_prepare; ib_chviews; ib_precommit; ib_commit>.
Definition empty_inbox := mkInbox [] [] [] [].

Record config := mkCfg { cfg_inc : Z; cfg_amev : Z (* -1: off *); cfg_dyn : bool (* MaxTimePerBlock configured *) }.

Record nstate := mkState {
  (* exported Context *)
  BlockIndex : Z; ViewNumber : Z; Validators : list key; MyIndex : Z; PrimaryIndex : Z; MyKey : key;
  PrevHash : hash; Timestamp : Z; Nonce : Z;
  TransactionHashes : list hash; MissingTransactions : list hash; Transactions : list (hash * tx);
  PreparationPayloads : list (option payload); PreCommitPayloads : list (option payload);
  CommitPayloads : list (option payload); ChangeViewPayloads : list (option payload);
  LastChangeViewPayloads : list (option payload); LastSeenMessage : list (option (Z * Z));
  (* unexported Context *)
  header : option blockobj; block_set : bool; preheader : option preblockobj; preblock_set : bool;
  blockProcessed : bool; preBlockProcessed : bool;
  lastBlockTimestamp : Z; lastBlockTime : option Z; lastBlockIndex : Z; lastBlockView : Z;
  timePerBlock : Z; maxTimePerBlock : Z; txSubscriptionOn : bool;
  prepareSentTime : option Z; rtt_times : list Z; rtt_idx : Z; rtt_avg : Z;
  (* DBFT *)
  cache : list (Z * inbox); cache_ready : bool (* Start ran: map allocated *); recovering : bool
}.
#[export] Instance eta_nstate : Settable _ := settable! mkState
  <BlockIndex; ViewNumber; Validators; MyIndex; PrimaryIndex; MyKey; PrevHash; Timestamp; Nonce;
   TransactionHashes; MissingTransactions; Transactions;
   PreparationPayloads; PreCommitPayloads; CommitPayloads; ChangeViewPayloads; LastChangeViewPayloads; LastSeenMessage;
   header; block_set; preheader; preblock_set; blockProcessed; preBlockProcessed;
   lastBlockTimestamp; lastBlockTime; lastBlockIndex; lastBlockView; timePerBlock; maxTimePerBlock; txSubscriptionOn;
   prepareSentTime; rtt_times; rtt_idx; rtt_avg; cache; cache_ready; recovering>.

Definition rttLength := 70.
Definition fresh_state : nstate :=
  mkState 0 0 [] 0 0 (-1) [] 0 0 [] [] [] [] [] [] [] [] [] None false None false false false
          0 None 0 0 0 0 false None (replicate rttLength 0) 0 0 [] false false.

(* ---- monad ---- *)
Record mstate := mkM { st : nstate; script : list call; trace : list (nstate * call) }.
Definition M (A : Type) := mstate -> res (A * mstate).
Definition ret {A} (a : A) : M A := fun m => Ok (a, m).
Definition bind {A B} (x : M A) (f : A -> M B) : M B :=
  fun m => match x m with
           | Ok (a, m') => f a m' | Mismatch p => Mismatch p | Panic => Panic | Fatal => Fatal | OutOfFuel => OutOfFuel end.
Notation "x <- a ;; b" := (bind a (fun x => b)) (at level 61, a at next level, right associativity).
Notation "a ;;; b" := (bind a (fun _ => b)) (at level 61, right associativity).
Definition get : M nstate := fun m => Ok (st m, m).
Definition gets {A} (f : nstate -> A) : M A := fun m => Ok (f (st m), m).
Definition modify (f : nstate -> nstate) : M unit := fun m => Ok (tt, mkM (f (st m)) (script m) (trace m)).
Definition panic {A} : M A := fun _ => Panic.
Definition fatal {A} : M A := fun _ => Fatal.
Definition out_of_fuel {A} : M A := fun _ => OutOfFuel.
Definition when (b : bool) (x : M unit) : M unit := if b then x else ret tt.

Definition ask {A} (sel : call -> option A) : M A := fun m =>
  match script m with
  | c :: rest => match sel c with
                 | Some a => Ok (a, mkM (st m) rest (trace m ++ [(st m, c)]))
                 | None => Mismatch (length (trace m)) end
  | [] => Mismatch (length (trace m)) end.

Definition tget {A} (l : list A) (i : Z) : M A :=
  if i <? 0 then panic else match nth_chk l (Z.to_nat i) with Some x => ret x | None => panic end.
Definition tset {A} (l : list A) (i : Z) (x : A) : M (list A) :=
  if i <? 0 then panic else match set_chk l (Z.to_nat i) x with Some l' => ret l' | None => panic end.

Fixpoint forM {A} (l : list A) (f : A -> M unit) : M unit :=
  match l with [] => ret tt | x :: t => f x ;;; forM t f end.
