(* C14, what can be said at node level: the model reads time only through the Now callback (there is no other clock in
   [step]: it is a function of state, event and script), and each use of a clock reading is equivariant under a shift of the
   clock by a constant d that is a multiple of the timestamp increment:
   - the proposal timestamp (getTimestamp): truncation to the increment commutes with the shift (no uint64 wrap);
   - round-trip and elapsed-time computations use differences of two readings, which do not see the shift;
   - timestamps copied into ChangeView / RecoveryRequest payloads are the reading itself.
   The run-level statement (same calls, shifted clock => same payloads and timer durations, timestamps shifted) is decided
   by executing every generated history twice on the real library (shift mode). *)
From DbftV Require Export Hoare.
From Coq Require Import Lia ZArith.

Lemma truncation_commutes_with_the_shift inc t d :
  0 < inc -> (inc | d) -> 0 <= t < 18446744073709551616 -> 0 <= t + d < 18446744073709551616 ->
  u64 (t + d) / inc * inc = u64 t / inc * inc + d.
Proof.
  intros Hi [k ->] Ht Htd. unfold u64. rewrite !Z.mod_small by lia.
  rewrite Z.div_add by lia. lia.
Qed.
Lemma elapsed_time_does_not_see_the_shift t t0 d : sat64 ((t + d) - (t0 + d)) = sat64 (t - t0).
Proof. f_equal. lia. Qed.
Lemma copied_reading_shifts t d : 0 <= t < 18446744073709551616 -> 0 <= t + d < 18446744073709551616 -> u64 (t + d) = u64 t + d.
Proof. intros H1 H2. unfold u64. rewrite !Z.mod_small by lia. reflexivity. Qed.

(* getTimestamp is exactly the truncated reading of the one Now callback it makes *)
Theorem getTimestamp_is_the_truncated_reading cfg s0 :
  cfg_inc cfg <> 0 ->
  hx s0 (getTimestamp cfg) (fun r s tr => s = s0 /\ exists t, map snd tr = [CNow t] /\ r = u64 t / cfg_inc cfg * cfg_inc cfg).
Proof.
  intros Hi. unfold getTimestamp, ask_now. apply x_ask. intros t c Hc. apply sel_Now in Hc. subst c.
  destruct (cfg_inc cfg =? 0) eqn:E; [apply Z.eqb_eq in E; contradiction|].
  apply x_ret. split; [reflexivity|]. exists t. split; reflexivity.
Qed.
