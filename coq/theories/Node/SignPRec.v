(* C03, the lock after the PreCommit: the functions that can reach initializeConsensus (SignLRec.v with the roles of the phases exchanged) *)
From DbftV Require Export SignPReset.

Definition Z0p (vs : list key) (mi : Z) (g : tr_t) : Prop := KS mi g -> zlen vs <= 65536 -> nset g = 0%nat.
(* conditional judgement: run only while nothing is signed *)
Definition kzp {A} (x : M A) : Prop :=
  forall vs mi g0 s0, I7g vs mi g0 s0 -> Z0p vs mi g0 -> hx s0 x (fun _ s tr => I7g vs mi (g0 ++ tr) s).
(* judgement with Inv2 as a precondition, for the functions through which a PrepareRequest is received *)
Definition kri {A} (x : M A) : Prop :=
  forall vs mi g0 s0, Inv2 s0 -> I7g vs mi g0 s0 -> hx s0 x (fun _ s tr => I7g vs mi (g0 ++ tr) s).
Definition ICr (ic : Z -> Z -> M unit) : Prop :=
  forall v t vs mi g0 s0, I7g vs mi g0 s0 -> (KS mi g0 -> 0 < v /\ (zlen vs <= 65536 -> nset g0 = 0%nat)) ->
  hx s0 (ic v t) (fun _ s tr => I7g vs mi (g0 ++ tr) s).

Lemma kzp_of_kq {A} (x : M A) : kr x -> kzp x.
Proof. intros H vs mi g0 s0 H0 _. apply (H vs mi g0 s0 H0). Qed.
Lemma kzp_ret {A} (a : A) : kzp (ret a). Proof. apply kzp_of_kq, kr_ret. Qed.
Lemma kzp_panic {A} : kzp (@panic A). Proof. apply kzp_of_kq, kr_panic. Qed.
Lemma k7_frame {A} vs mi g0 s0 (x : M A) : k7 x -> I7g vs mi g0 s0 -> hx s0 x (fun _ s tr => I7g vs mi (g0 ++ tr) s /\ nset tr = 0%nat).
Proof.
  intros Hx H0. destruct (KS_dec mi g0) as [Hk|Hk].
  - eapply x_conseq; [apply (Hx true vs mi (ViewNumber s0) (nset g0) (set_precommit g0) s0); split; [exact (H0 Hk)|reflexivity]|].
    cbn. intros _ s n [P T]. split; [|apply (nosetd_nset _ T)]. intros _. rewrite nset_app, (nosetd_nset _ T), Nat.add_0_r, (set_precommit_app _ _ (nosetd_nset _ T)). apply P.
  - eapply x_conseq; [apply (Hx false vs mi 0 0%nat None s0); exact I|].
    cbn. intros _ s n [_ T]. split; [|apply (nosetd_nset _ T)]. intros Hk2. exfalso. apply Hk. apply (KS_app _ _ _ Hk2).
Qed.
Lemma kzp_bind0 {A B} (x : M A) (f : A -> M B) : k7 x -> (forall a, kzp (f a)) -> kzp (bind x f).
Proof.
  intros Hx Hf vs mi g0 s0 H0 Hz. eapply x_call; [apply (k7_frame vs mi g0 s0 x Hx H0)|]. intros a s1 n1 [P1 N1]. cbn beta.
  eapply x_conseq; [apply (Hf a vs mi (g0 ++ n1) s1 P1)|].
  - intros Hk Hs. apply KS_app in Hk. rewrite nset_app, N1, (Hz (proj1 Hk) Hs). reflexivity.
  - cbn. intros b s n P. rewrite app_assoc. exact P.
Qed.
Lemma kzp_bindz {A B} (x : M A) (f : A -> M B) : kzp x -> (forall a, kr (f a)) -> kzp (bind x f).
Proof.
  intros Hx Hf vs mi g0 s0 H0 Hz. eapply x_call; [apply (Hx vs mi g0 s0 H0 Hz)|]. intros a s1 n1 P1. cbn beta.
  eapply x_conseq; [apply (Hf a vs mi (g0 ++ n1) s1 P1)|]. cbn. intros b s n P. rewrite app_assoc. exact P.
Qed.
Lemma kzp_assoc {A B C} (x : M A) (g : A -> M B) (f : B -> M C) : kzp (bind x (fun a => bind (g a) f)) -> kzp (bind (bind x g) f).
Proof. intros H vs mi g0 s0 H0 Hz. apply x_assoc. apply H; assumption. Qed.
Lemma kzp_ret_bind {A B} (a : A) (f : A -> M B) : kzp (f a) -> kzp (bind (ret a) f).
Proof. intros H vs mi g0 s0 H0 Hz. apply x_ret_bind. apply H; assumption. Qed.
Lemma kzp_get_bind {B} (f : nstate -> M B) : (forall s, kzp (f s)) -> kzp (bind get f).
Proof. intros H vs mi g0 s0 H0 Hz. apply x_get. apply H; assumption. Qed.

Lemma kri_of_kq {A} (x : M A) : kr x -> kri x.
Proof. intros H vs mi g0 s0 _ H0. apply (H vs mi g0 s0 H0). Qed.
Lemma kri_ret {A} (a : A) : kri (ret a). Proof. apply kri_of_kq, kr_ret. Qed.
Lemma kri_panic {A} : kri (@panic A). Proof. apply kri_of_kq, kr_panic. Qed.
Lemma kri_bind {A B} (x : M A) (f : A -> M B) : K2 x -> kri x -> (forall a, kri (f a)) -> kri (bind x f).
Proof.
  intros HK Hx Hf vs mi g0 s0 J0 H0. eapply x_call; [apply (x_conj _ _ _ _ (HK s0 J0) (Hx vs mi g0 s0 J0 H0))|].
  intros a s1 n1 [[J1 _] P1]. cbn beta.
  eapply x_conseq; [apply (Hf a vs mi (g0 ++ n1) s1 J1 P1)|]. cbn. intros b s n P. rewrite app_assoc. exact P.
Qed.
Lemma kri_assoc {A B C} (x : M A) (g : A -> M B) (f : B -> M C) : kri (bind x (fun a => bind (g a) f)) -> kri (bind (bind x g) f).
Proof. intros H vs mi g0 s0 J0 H0. apply x_assoc. apply H; assumption. Qed.
Lemma kri_ret_bind {A B} (a : A) (f : A -> M B) : kri (f a) -> kri (bind (ret a) f).
Proof. intros H vs mi g0 s0 J0 H0. apply x_ret_bind. apply H; assumption. Qed.
Lemma kri_get_bind {B} (f : nstate -> M B) : (forall s, kri (f s)) -> kri (bind get f).
Proof. intros H vs mi g0 s0 J0 H0. apply x_get. apply H; assumption. Qed.
Lemma kri_forM {T} (l : list T) (f : T -> M unit) : (forall a, K2 (f a)) -> (forall a, kri (f a)) -> kri (forM l f).
Proof. intros HK Hf. induction l as [|a l IH]; cbn [forM]; [apply kri_ret|]. apply kri_bind; auto. Qed.

Create HintDb kridb discriminated.
Create HintDb kzpdb discriminated.
Ltac solveK2 := solve [ eauto 3 with kpdb | kp_go leafK ].
Ltac solvek7 := solve [ eauto 3 with kpdb | k7_go ].
Ltac kri_leaf :=
  first [ solve [eauto 3 with kridb]
        | apply kri_of_kq; first [ solve [eauto 3 with krdb] | solve [apply kr_of_k3; solvek7] ] ].
Ltac kri_go :=
  lazymatch goal with
  | |- kri (bind (bind _ _) _) => apply kri_assoc; kri_go
  | |- kri (bind (ret _) _) => apply kri_ret_bind; kri_go
  | |- kri (bind get _) => apply kri_get_bind; intro; kri_go
  | |- kri (bind (if ?b then _ else _) _) => destruct b; kri_go
  | |- kri (bind (match ?o with Some _ => _ | None => _ end) _) => destruct o; kri_go
  | |- kri (bind _ _) => first [ solve [apply kri_of_kq; kr_go] | apply kri_bind; [ solveK2 | first [kri_leaf | solve [kri_go]] | intro; kri_go ] ]
  | |- kri (ret _) => apply kri_ret
  | |- kri panic => apply kri_panic
  | |- kri (forM _ _) => apply kri_forM; [ intro; solveK2 | intro; kri_go ]
  | |- kri (if ?b then _ else _) => destruct b; kri_go
  | |- kri (match ?o with Some _ => _ | None => _ end) => destruct o; kri_go
  | |- kri (match ?o with nil => _ | cons _ _ => _ end) => destruct o; kri_go
  | |- kri (let _ := _ in _) => cbv zeta; kri_go
  | |- kri _ => first [ kri_leaf | idtac ]
  end.
Ltac kzp_go :=
  lazymatch goal with
  | |- kzp (bind (bind _ _) _) => apply kzp_assoc; kzp_go
  | |- kzp (bind (ret _) _) => apply kzp_ret_bind; kzp_go
  | |- kzp (bind get _) => apply kzp_get_bind; intro; kzp_go
  | |- kzp (bind (if ?b then _ else _) _) => destruct b; kzp_go
  | |- kzp (bind (match ?o with Some _ => _ | None => _ end) _) => destruct o; kzp_go
  | |- kzp (bind _ _) =>
      first [ apply kzp_bindz; [ solve [eauto 3 with kzpdb] | intro; solve [kr_go] ]
            | apply kzp_bind0; [ solvek7 | intro; kzp_go ]
            | solve [apply kzp_of_kq; kr_go] ]
  | |- kzp (ret _) => apply kzp_ret
  | |- kzp panic => apply kzp_panic
  | |- kzp (if ?b then _ else _) => destruct b; kzp_go
  | |- kzp (match ?o with Some _ => _ | None => _ end) => destruct o; kzp_go
  | |- kzp (let _ := _ in _) => cbv zeta; kzp_go
  | |- kzp _ => first [ solve [eauto 3 with kzpdb] | solve [apply kzp_of_kq; first [solve [eauto 3 with krdb] | apply kr_of_k3; solvek7]] | idtac ]
  end.

(* the ownp slot of a table, exactly: what CommitSent / PreCommitSent / ResponseSent return when the node is not told to watch only *)
Lemma os_specp tbl s0 : hx s0 (own_slot tbl)
  (fun r s tr => s = s0 /\ nset tr = 0%nat /\ forall mi, KS mi tr -> r = isSome (slot (tbl s0) (MyIndex s0))).
Proof.
  unfold own_slot, WatchOnly. apply x_assoc. apply x_get. destruct (MyIndex s0 <? 0) eqn:Em.
  - apply x_ret_bind. apply x_ret. split; [reflexivity|split; [reflexivity|]]. intros mi _. unfold slot. rewrite Em. reflexivity.
  - unfold ask_watchonly. apply x_ask. intros wo c Hc. apply sel_WatchOnly in Hc. subst c. destruct wo.
    + apply x_ret. split; [reflexivity|split; [reflexivity|]]. intros mi Hk. exfalso.
      pose proof (KS_wo _ _ _ _ Hk (or_introl eq_refl)) as E. discriminate E.
    + apply x_get. apply x_tget. intros x Hi Hx. apply x_ret. split; [reflexivity|split; [reflexivity|]]. intros mi _.
      rewrite (slot_nth _ _ _ Hi Hx). reflexivity.
Qed.
(* nothing is signed while the ownp Commit slot is empty *)
Lemma unset_when_no_own_precommit vs mi g s : I7g vs mi g s -> KS mi g -> slot (PreCommitPayloads s) (MyIndex s) = None -> zlen vs <= 65536 -> nset g = 0%nat.
Proof. intros H Hk Ho Hs. pose proof (H Hk) as (_ & A2 & _ & _ & A5). apply (p1 _ _ _ _ (A5 Hs)). unfold ownp. rewrite <- A2. exact Ho. Qed.
(* ... and while the node holds no preheader *)
Lemma unset_when_no_preheader vs mi g s : I7g vs mi g s -> KS mi g -> preheader s = None -> zlen vs <= 65536 -> nset g = 0%nat.
Proof.
  intros H Hk Hh Hs. pose proof (H Hk) as (_ & _ & _ & _ & A5). destruct (nset g) eqn:E; [reflexivity|exfalso].
  destruct (p2 _ _ _ _ (A5 Hs) ltac:(discriminate)) as (c & b & _ & _ & _ & _ & _ & Hb & _). rewrite Hh in Hb. discriminate Hb.
Qed.
Lemma I7g_pad vs mi g n s : I7g vs mi g s -> nset n = 0%nat -> I7g vs mi (g ++ n) s.
Proof. intros H Hn Hk. apply KS_app in Hk. rewrite nset_app, Hn, Nat.add_0_r, (set_precommit_app _ _ Hn). apply H. apply Hk. Qed.


Section RecP.
Variable cfg : config.
Hint Resolve h_WatchOnly h_RSOR h_own_slot h_ResponseSent h_PreCommitSent h_CommitSent h_ViewChanging h_NotAccepting h_subscribe h_unsubscribe
  h_StopTxFlow h_changeTimer h_getTimestamp h_MakeHeader cfg h_CreateBlock cfg h_broadcast h_rtt h_makeRecoveryMessage h_sendRecoveryMessage
  h_processMissingTx h_sendRecoveryRequest h_makeChangeView h_makeCommit cfg h_sendCommit cfg h_verifyPreCommits h_extendTimer h_GetPrimaryIndex
  h_onRecoveryRequest h_cache_addMessage h_ask_recv h_MakeHeader h_CreateBlock h_makeCommit h_sendCommit h_verifyCommits h_checkCommit
  h_checkPreCommit h_checkPrepare h_onCommit h_onPreCommit h_updateExistingPayloads : kpdb.
Hint Extern 4 (kp Inv2 G2 _) => (apply K2_of_k2; intros; solve [eauto 3 with kpdb]) : kpdb.
Hint Resolve u_WatchOnly u_RSOR u_own_slot u_ResponseSent u_PreCommitSent u_CommitSent u_ViewChanging u_NotAccepting u_subscribe u_unsubscribe
  u_StopTxFlow u_changeTimer u_getTimestamp u_Fill u_MakeHeader u_CreateBlock u_broadcast u_makePrepareRequest u_rtt
  u_makeRecoveryMessage u_sendRecoveryMessage u_processMissingTx u_sendRecoveryRequest u_makeChangeView u_makePrepareResponse
  u_sendPrepareResponse u_makeCommit u_sendCommit u_verifyCommits u_extendTimer u_GetPrimaryIndex u_onRecoveryRequest
  u_cache_addMessage u_ask_recv u_MakePreHeader u_CreatePreBlock u_checkCommit u_verifyPreCommits u_updateExistingPayloads u_onPreCommit u_onCommit u_checkPreCommit u_sendCommit u_makeCommit u_MakeHeader u_CreateBlock u_verifyCommits : kpdb.
Hint Resolve pq_sendPreCommit pq_checkPreCommit pq_checkPrepare pq_sendPrepareRequest pq_onPrepareResponse pq_onPreCommit : krdb.
Hint Resolve K_onPrepareResponse : kpdb.
Ltac fixapp := cbn; let s := fresh "s" in let n := fresh "n" in let P := fresh "P" in intros _ s n P; rewrite <- ?app_assoc in *; cbn [app] in *; exact P.

Section WithIcP.
Variable ic : Z -> Z -> M unit.
Hypothesis HicK : forall v t, K2 (ic v t).
Hypothesis Hic3 : ICr ic.
Let Kccv := K_checkChangeView ic HicK.
Let Kscv := K_sendChangeView ic HicK.
Let Kcab := K_createAndCheckBlock cfg ic HicK.
Let Kadd := K_addTransaction cfg ic HicK.
Let Kopr := K_onPrepareRequest cfg ic HicK.
Let Kocv := K_onChangeView cfg ic HicK.
Hint Resolve HicK Kccv Kscv Kcab Kadd Kopr Kocv : kpdb.

(* a view change is entered only while nothing is signed, and for a view above the current one *)
Lemma pz_checkChangeView view : kzp (checkChangeView ic view).
Proof.
  intros vs mi g0 s0 H0 Hz. unfold checkChangeView. apply x_get.
  destruct (ViewNumber s0 >=? view) eqn:Ev; [apply x_ret; rewrite app_nil_r; exact H0|]. cbv zeta.
  destruct (_ <? _); [apply x_ret; rewrite app_nil_r; exact H0|].
  rewrite Z.geb_leb in Ev. apply Z.leb_gt in Ev.
  assert (Hpos : KS mi g0 -> 0 < view) by (intros Hk; pose proof (H0 Hk) as (_ & _ & A3 & _); lia).
  eapply x_call; [apply (k7_frame vs mi g0 s0 _ u_WatchOnly H0)|]. intros wo s1 n1 [I1 N1]. cbn beta.
  match goal with |- hx _ (bind ?blk _) _ => assert (Hpre : k7 blk) by (destruct wo; k7_go) end.
  eapply x_call; [apply (k7_frame vs mi (g0 ++ n1) s1 _ Hpre I1)|]. intros [] s2 n2 [I2 N2]. cbn beta. apply x_get.
  eapply x_conseq; [apply (Hic3 view (lastBlockTimestamp s2) vs mi ((g0 ++ n1) ++ n2) s2 I2)|fixapp].
  intros Hk. pose proof Hk as Hk'. apply KS_app in Hk'. destruct Hk' as [Hk1 _]. apply KS_app in Hk1. destruct Hk1 as [Hk0 _].
  split; [exact (Hpos Hk0)|]. intros Hs. rewrite !nset_app, N1, N2, (Hz Hk0 Hs). reflexivity.
Qed.
Hint Resolve pz_checkChangeView : kzpdb.
Lemma pz_sendChangeView r : kzp (sendChangeView ic r). Proof. unfold sendChangeView. kzp_go. Qed.
Hint Resolve pz_sendChangeView : kzpdb.
Lemma pz_createAndCheckBlock : kzp (createAndCheckBlock cfg ic). Proof. unfold createAndCheckBlock. kzp_go. Qed.
Hint Resolve pz_createAndCheckBlock : kzpdb.
Lemma pz_addTransaction t : kzp (addTransaction cfg ic t). Proof. unfold addTransaction. kzp_go. Qed.
Hint Resolve pz_addTransaction : kzpdb.

(* a ChangeView of a peer is followed only while the node holds no Commit of its ownp *)
Lemma pq_onChangeView m : kr (onChangeView cfg ic m).
Proof.
  intros vs mi g0 s0 H0. unfold onChangeView. apply x_get. cbv zeta.
  destruct (cv_newview m <=? ViewNumber s0); [apply (kr_of_k3 _ (u_onRecoveryRequest cfg m) vs mi g0 s0 H0)|].
  eapply x_call; [apply (os_specp CommitPayloads s0)|]. intros cs s1 n1 (-> & N1 & _). cbn beta.
  eapply x_call with (Qx := fun ps s tr => s = s0 /\ nset tr = 0%nat /\ (cs = false -> forall mi, KS mi tr -> ps = isSome (slot (PreCommitPayloads s0) (MyIndex s0)))).
  { destruct cs; [apply x_ret; split; [reflexivity|split; [reflexivity|discriminate]]|].
    eapply x_conseq; [apply (os_specp PreCommitPayloads s0)|]. cbn. intros r s n (A & B & C). auto. }
  intros ps s2 n2 (-> & N2 & Hps). cbn beta.
  assert (I2 : I7g vs mi ((g0 ++ n1) ++ n2) s0) by (apply I7g_pad; [apply I7g_pad; assumption|assumption]).
  destruct (cs || ps) eqn:Ecp.
  { eapply x_conseq; [apply (kr_of_k3 _ u_sendRecoveryMessage vs mi ((g0 ++ n1) ++ n2) s0 I2)|fixapp]. }
  apply orb_false_iff in Ecp. destruct Ecp as [-> ->]. specialize (Hps eq_refl).
  assert (Hz : Z0p vs mi ((g0 ++ n1) ++ n2)).
  { intros Hk Hs. pose proof Hk as Hk'. apply KS_app in Hk'. destruct Hk' as [Hk1 Hkn2]. apply KS_app in Hk1. destruct Hk1 as [Hk0 Hkn1].
    rewrite !nset_app, N1, N2, !Nat.add_0_r. apply (unset_when_no_own_precommit vs mi g0 s0 H0 Hk0); [|exact Hs].
    specialize (Hps mi Hkn2). destruct (slot (PreCommitPayloads s0) (MyIndex s0)); [discriminate Hps|reflexivity]. }
  match goal with |- hx _ ?prog _ => assert (Hrest : kzp prog) by kzp_go end.
  eapply x_conseq; [apply (Hrest vs mi ((g0 ++ n1) ++ n2) s0 I2 Hz)|fixapp].
Qed.
Hint Resolve pq_onChangeView : krdb.

(* a PrepareRequest is acted upon only while no proposal is held - hence, by Inv2, while the node holds no preheader and has signed nothing *)
Lemma pi_onPrepareRequest m : kri (onPrepareRequest cfg ic m).
Proof.
  intros vs mi g0 s0 J0 H0. unfold onPrepareRequest.
  eapply x_call; [apply rsor_spec|]. intros rs s1 n1 (-> & -> & Hrs). cbn beta. cbn [app]. destruct rs.
  { assert (Hl : k7 (_ <- ViewChanging ;; ret tt)) by k7_go. eapply x_conseq; [apply (kr_of_k3 _ Hl vs mi g0 s0 H0)|fixapp]. }
  specialize (Hrs eq_refl).
  assert (Hh : preheader s0 = None).
  { destruct (preheader s0) as [b|] eqn:E; [|reflexivity]. destruct (i_p2 _ J0 b E) as [r Hr]. rewrite Hrs in Hr. discriminate Hr. }
  assert (Hz : Z0p vs mi g0) by (intros Hk Hs; apply (unset_when_no_preheader vs mi g0 s0 H0 Hk Hh Hs)).
  match goal with |- hx _ ?prog _ => assert (Hrest : kzp prog) end.
  { kzp_go. all: try (destruct (p_body m) as [[]|]; kzp_go). }
  eapply x_conseq; [apply (Hrest vs mi g0 s0 H0 Hz)|fixapp].
Qed.
Hint Resolve pi_onPrepareRequest : kridb.

Lemma pi_receive_common d m : (forall x, K2 (d x)) -> (forall x, kri (d x)) -> kri (receive_common d m).
Proof. intros HdK Hd. unfold receive_common. kri_go. Qed.
Lemma pi_dispatch0 m : kri (dispatch0 cfg ic m). Proof. unfold dispatch0. destruct (p_type m); kri_go. Qed.
Hint Resolve pi_dispatch0 : kridb.
Let Kd0 := K_dispatch0 cfg ic HicK.
Let Knr0 := K_nestedReceive0 cfg ic HicK.
Let Korm := K_onRecoveryMessage cfg ic HicK.
Let Kdis := K_dispatch cfg ic HicK.
Let Korc := K_OnReceive cfg ic HicK.
Hint Resolve Kd0 Knr0 Korm Kdis Korc : kpdb.
Lemma pi_nestedReceive0 m : kri (nestedReceive0 cfg ic m).
Proof.
  unfold nestedReceive0. apply kri_bind; [solveK2|kri_leaf|intros _].
  apply pi_receive_common; [intros x; apply Kd0|intros x; apply pi_dispatch0].
Qed.
Hint Resolve pi_nestedReceive0 : kridb.
Lemma pi_onRecoveryMessage m : kri (onRecoveryMessage cfg ic m).
Proof. unfold onRecoveryMessage. destruct (p_body m); [apply kri_panic|]. cbv zeta. kri_go. Qed.
Hint Resolve pi_onRecoveryMessage : kridb.
Lemma pi_dispatch m : kri (dispatch cfg ic m). Proof. unfold dispatch. destruct (p_type m); kri_go. Qed.
Lemma pi_OnReceive m : kri (OnReceive cfg ic m).
Proof. unfold OnReceive. apply pi_receive_common; [intros x; apply Kdis|intros x; apply pi_dispatch]. Qed.
Hint Resolve pi_OnReceive : kridb.
Lemma pi_replay_map n : forall entries, kri (replay_map cfg ic n entries).
Proof.
  pose proof (K_replay_map cfg ic HicK) as HKr.
  induction n as [|n IH]; intros entries; destruct entries as [|e entries]; cbn [replay_map]; try apply kri_ret. kri_go.
Qed.
End WithIcP.
End RecP.
