(* C03, the lock after the PreCommit, on the outgoing messages: no ChangeView is broadcast after the request for pre-commit data (SignLNoCV.v with the roles of the phases exchanged) *)
From DbftV Require Import Replay.
From DbftV Require Export SignLNoCV SignPApi.

Definition Lkp (g : tr_t) : Prop := forall g1 sc g2, g = g1 ++ sc :: g2 -> is_cv (snd sc) = true -> nset g1 = 0%nat.
Lemma Lkp_unsigned g : nset g = 0%nat -> Lkp g.
Proof. intros H g1 sc g2 -> _. rewrite nset_app in H. lia. Qed.
Lemma Lkp_app g n : Lkp g -> ncv n = 0%nat -> Lkp (g ++ n).
Proof.
  intros HLp Hn g1 sc g2 E Hc. apply app_eq_app in E. destruct E as (l & [[E1 E2]|[E1 E2]]).
  - destruct l as [|x l'].
    + cbn in E2. assert (Hin : In sc n) by (rewrite <- E2; left; reflexivity). rewrite (ncv_in _ _ Hn Hin) in Hc. discriminate Hc.
    + injection E2 as <- E2. apply (HLp g1 sc l'); [rewrite E1; reflexivity|exact Hc].
  - assert (Hin : In sc n) by (rewrite E2; apply in_or_app; right; left; reflexivity). rewrite (ncv_in _ _ Hn Hin) in Hc. discriminate Hc.
Qed.

Lemma Z0p_pad vs mi g n : Z0p vs mi g -> nset n = 0%nat -> Z0p vs mi (g ++ n).
Proof. intros Hz Hn Hk Hs. apply KS_app in Hk. destruct Hk as [Hk _]. rewrite nset_app, Hn, (Hz Hk Hs). reflexivity. Qed.
Definition L5p (vs : list key) (mi : Z) (g : tr_t) : Prop := KS mi g -> zlen vs <= 65536 -> Lkp g.
Definition klqp {A} (x : M A) : Prop :=
  forall vs mi g0 s0, TY s0 -> I7g vs mi g0 s0 -> L5p vs mi g0 -> hx s0 x (fun _ s tr => L5p vs mi (g0 ++ tr)).
Definition klzp {A} (x : M A) : Prop :=
  forall vs mi g0 s0, TY s0 -> I7g vs mi g0 s0 -> Z0p vs mi g0 -> hx s0 x (fun _ s tr => L5p vs mi (g0 ++ tr)).
Definition klp {A} (x : M A) : Prop :=
  forall vs mi g0 s0, Inv2 s0 -> TY s0 -> I7g vs mi g0 s0 -> L5p vs mi g0 -> hx s0 x (fun _ s tr => L5p vs mi (g0 ++ tr)).
Definition IClp (ic : Z -> Z -> M unit) : Prop :=
  forall v t vs mi g0 s0, TY s0 -> I7g vs mi g0 s0 -> (KS mi g0 -> 0 < v /\ (zlen vs <= 65536 -> nset g0 = 0%nat)) ->
  hx s0 (ic v t) (fun _ s tr => L5p vs mi (g0 ++ tr)).

Lemma L5p_unsigned vs mi g : Z0p vs mi g -> L5p vs mi g.
Proof. intros Hz Hk Hs. apply Lkp_unsigned. apply (Hz Hk Hs). Qed.
Lemma L5p_pad vs mi g n : L5p vs mi g -> ncv n = 0%nat -> L5p vs mi (g ++ n).
Proof. intros H Hn Hk Hs. apply KS_app in Hk. destruct Hk as [Hk _]. apply Lkp_app; [apply (H Hk Hs)|exact Hn]. Qed.

Lemma klqp_of_kc {A} (x : M A) : kc x -> klqp x.
Proof.
  intros Hx vs mi g0 s0 HT _ H5. eapply x_conseq; [apply (Hx s0 HT)|]. cbn. intros _ s n [_ T]. apply L5p_pad; [exact H5|apply nocv_ncv; exact T].
Qed.
Lemma klqp_ret {A} (a : A) : klqp (ret a).
Proof. intros vs mi g0 s0 _ _ H. apply x_ret. rewrite app_nil_r. exact H. Qed.
Lemma klqp_panic {A} : klqp (@panic A). Proof. intros vs mi g0 s0 _ _ _. apply x_panic. Qed.
Lemma klqp_fatal {A} : klqp (@fatal A). Proof. intros vs mi g0 s0 _ _ _. apply x_fatal. Qed.
Lemma klqp_oof {A} : klqp (@out_of_fuel A). Proof. intros vs mi g0 s0 _ _ _. apply x_oof. Qed.
Lemma klqp_bind {A B} (x : M A) (f : A -> M B) : kr x -> kt x -> klqp x -> (forall a, klqp (f a)) -> klqp (bind x f).
Proof.
  intros Hq Ht Hx Hf vs mi g0 s0 HT H3 H5.
  eapply x_call; [apply (x_conj _ _ _ _ (Ht s0 HT) (x_conj _ _ _ _ (Hq vs mi g0 s0 H3) (Hx vs mi g0 s0 HT H3 H5)))|].
  intros a s1 n1 [[T1 _] [P3 P5]]. cbn beta. eapply x_conseq; [apply (Hf a vs mi (g0 ++ n1) s1 T1 P3 P5)|]. cbn. intros b s n P. rewrite app_assoc. exact P.
Qed.
Lemma klqp_assoc {A B C} (x : M A) (g : A -> M B) (f : B -> M C) : klqp (bind x (fun a => bind (g a) f)) -> klqp (bind (bind x g) f).
Proof. intros H vs mi g0 s0 HT H3 H5. apply x_assoc. apply H; assumption. Qed.
Lemma klqp_ret_bind {A B} (a : A) (f : A -> M B) : klqp (f a) -> klqp (bind (ret a) f).
Proof. intros H vs mi g0 s0 HT H3 H5. apply x_ret_bind. apply H; assumption. Qed.
Lemma klqp_get_bind {B} (f : nstate -> M B) : (forall s, klqp (f s)) -> klqp (bind get f).
Proof. intros H vs mi g0 s0 HT H3 H5. apply x_get. apply H; assumption. Qed.
Lemma klqp_forM {T} (l : list T) (f : T -> M unit) : (forall a, kr (f a)) -> (forall a, kt (f a)) -> (forall a, klqp (f a)) -> klqp (forM l f).
Proof. intros Hq Ht Hf. induction l as [|a l IH]; cbn [forM]; [apply klqp_ret|]. apply klqp_bind; auto. Qed.

Lemma klzp_of_klq {A} (x : M A) : klqp x -> klzp x.
Proof. intros H vs mi g0 s0 HT H3 Hz. apply (H vs mi g0 s0 HT H3). apply L5p_unsigned. exact Hz. Qed.
Lemma klzp_of_k3 {A} (x : M A) : k7 x -> klzp x.
Proof.
  intros Hx vs mi g0 s0 _ H3 Hz. eapply x_conseq; [apply (k7_frame vs mi g0 s0 x Hx H3)|].
  cbn. intros _ s n [_ N]. apply L5p_unsigned. apply Z0p_pad; assumption.
Qed.
Lemma klzp_ret {A} (a : A) : klzp (ret a). Proof. apply klzp_of_klq, klqp_ret. Qed.
Lemma klzp_panic {A} : klzp (@panic A). Proof. apply klzp_of_klq, klqp_panic. Qed.
Lemma klzp_bind0 {A B} (x : M A) (f : A -> M B) : k7 x -> kt x -> (forall a, klzp (f a)) -> klzp (bind x f).
Proof.
  intros Hx Ht Hf vs mi g0 s0 HT H3 Hz. eapply x_call; [apply (x_conj _ _ _ _ (Ht s0 HT) (k7_frame vs mi g0 s0 x Hx H3))|].
  intros a s1 n1 [[T1 _] [P1 N1]]. cbn beta.
  eapply x_conseq; [apply (Hf a vs mi (g0 ++ n1) s1 T1 P1 (Z0p_pad _ _ _ _ Hz N1))|]. cbn. intros b s n P. rewrite app_assoc. exact P.
Qed.
Lemma klzp_bindz {A B} (x : M A) (f : A -> M B) : kzp x -> kt x -> klzp x -> (forall a, klqp (f a)) -> klzp (bind x f).
Proof.
  intros Hq Ht Hx Hf vs mi g0 s0 HT H3 Hz.
  eapply x_call; [apply (x_conj _ _ _ _ (Ht s0 HT) (x_conj _ _ _ _ (Hq vs mi g0 s0 H3 Hz) (Hx vs mi g0 s0 HT H3 Hz)))|].
  intros a s1 n1 [[T1 _] [P3 P5]]. cbn beta. eapply x_conseq; [apply (Hf a vs mi (g0 ++ n1) s1 T1 P3 P5)|]. cbn. intros b s n P. rewrite app_assoc. exact P.
Qed.
Lemma klzp_assoc {A B C} (x : M A) (g : A -> M B) (f : B -> M C) : klzp (bind x (fun a => bind (g a) f)) -> klzp (bind (bind x g) f).
Proof. intros H vs mi g0 s0 HT H3 Hz. apply x_assoc. apply H; assumption. Qed.
Lemma klzp_ret_bind {A B} (a : A) (f : A -> M B) : klzp (f a) -> klzp (bind (ret a) f).
Proof. intros H vs mi g0 s0 HT H3 Hz. apply x_ret_bind. apply H; assumption. Qed.
Lemma klzp_get_bind {B} (f : nstate -> M B) : (forall s, klzp (f s)) -> klzp (bind get f).
Proof. intros H vs mi g0 s0 HT H3 Hz. apply x_get. apply H; assumption. Qed.

Lemma klp_of_klq {A} (x : M A) : klqp x -> klp x.
Proof. intros H vs mi g0 s0 _ HT H3 H5. apply (H vs mi g0 s0 HT H3 H5). Qed.
Lemma klp_ret {A} (a : A) : klp (ret a). Proof. apply klp_of_klq, klqp_ret. Qed.
Lemma klp_panic {A} : klp (@panic A). Proof. apply klp_of_klq, klqp_panic. Qed.
Lemma klp_bind {A B} (x : M A) (f : A -> M B) : K2 x -> kri x -> kt x -> klp x -> (forall a, klp (f a)) -> klp (bind x f).
Proof.
  intros HK Hq Ht Hx Hf vs mi g0 s0 J0 HT H3 H5.
  eapply x_call; [apply (x_conj _ _ _ _ (x_conj _ _ _ _ (HK s0 J0) (Ht s0 HT)) (x_conj _ _ _ _ (Hq vs mi g0 s0 J0 H3) (Hx vs mi g0 s0 J0 HT H3 H5)))|].
  intros a s1 n1 [[[J1 _] [T1 _]] [P3 P5]]. cbn beta.
  eapply x_conseq; [apply (Hf a vs mi (g0 ++ n1) s1 J1 T1 P3 P5)|]. cbn. intros b s n P. rewrite app_assoc. exact P.
Qed.
Lemma klp_assoc {A B C} (x : M A) (g : A -> M B) (f : B -> M C) : klp (bind x (fun a => bind (g a) f)) -> klp (bind (bind x g) f).
Proof. intros H vs mi g0 s0 J0 HT H3 H5. apply x_assoc. apply H; assumption. Qed.
Lemma klp_ret_bind {A B} (a : A) (f : A -> M B) : klp (f a) -> klp (bind (ret a) f).
Proof. intros H vs mi g0 s0 J0 HT H3 H5. apply x_ret_bind. apply H; assumption. Qed.
Lemma klp_get_bind {B} (f : nstate -> M B) : (forall s, klp (f s)) -> klp (bind get f).
Proof. intros H vs mi g0 s0 J0 HT H3 H5. apply x_get. apply H; assumption. Qed.
Lemma klp_forM {T} (l : list T) (f : T -> M unit) :
  (forall a, K2 (f a)) -> (forall a, kri (f a)) -> (forall a, kt (f a)) -> (forall a, klp (f a)) -> klp (forM l f).
Proof. intros HK Hq Ht Hf. induction l as [|a l IH]; cbn [forM]; [apply klp_ret|]. apply klp_bind; auto. Qed.

Create HintDb klqpdb discriminated.
Create HintDb klzpdb discriminated.
Create HintDb klpdb discriminated.
Ltac solvekr := solve [ eauto 3 with krdb | apply kr_of_k3; solvek7 | kr_go ].
Ltac solvekzp := solve [ eauto 3 with kzpdb | apply kzp_of_kq; solvekr | kzp_go ].
Ltac solvekri := first [ kri_leaf | solve [kri_go] ].
Ltac solvekc := solve [ eauto 3 with kpdb | kc_go ].
Ltac solvekt := solve [ eauto 3 with kpdb | apply kt_of_kc; solvekc | kn_go leafc ].
Ltac klqp_leaf := first [ solve [eauto 3 with klqpdb] | solve [apply klqp_of_kc; solvekc] ].
Ltac klqp_go :=
  lazymatch goal with
  | |- klqp (bind (bind _ _) _) => apply klqp_assoc; klqp_go
  | |- klqp (bind (ret _) _) => apply klqp_ret_bind; klqp_go
  | |- klqp (bind get _) => apply klqp_get_bind; intro; klqp_go
  | |- klqp (bind (if ?b then _ else _) _) => destruct b; klqp_go
  | |- klqp (bind (match ?o with Some _ => _ | None => _ end) _) => destruct o; klqp_go
  | |- klqp (bind _ _) => first [ klqp_leaf | apply klqp_bind; [ solvekr | solvekt | first [klqp_leaf | solve [klqp_go]] | intro; klqp_go ] ]
  | |- klqp (ret _) => apply klqp_ret
  | |- klqp panic => apply klqp_panic
  | |- klqp fatal => apply klqp_fatal
  | |- klqp out_of_fuel => apply klqp_oof
  | |- klqp (forM _ _) => apply klqp_forM; [ intro; solvekr | intro; solvekt | intro; klqp_go ]
  | |- klqp (if ?b then _ else _) => destruct b; klqp_go
  | |- klqp (match ?o with Some _ => _ | None => _ end) => destruct o; klqp_go
  | |- klqp (match ?o with nil => _ | cons _ _ => _ end) => destruct o; klqp_go
  | |- klqp (let _ := _ in _) => cbv zeta; klqp_go
  | |- klqp _ => first [ klqp_leaf | idtac ]
  end.
Ltac klzp_leaf := first [ solve [eauto 3 with klzpdb] | solve [apply klzp_of_k3; solvek7] | solve [apply klzp_of_klq; klqp_leaf] ].
Ltac klzp_go :=
  lazymatch goal with
  | |- klzp (bind (bind _ _) _) => apply klzp_assoc; klzp_go
  | |- klzp (bind (ret _) _) => apply klzp_ret_bind; klzp_go
  | |- klzp (bind get _) => apply klzp_get_bind; intro; klzp_go
  | |- klzp (bind (if ?b then _ else _) _) => destruct b; klzp_go
  | |- klzp (bind (match ?o with Some _ => _ | None => _ end) _) => destruct o; klzp_go
  | |- klzp (bind _ _) =>
      first [ apply klzp_bind0; [ solvek7 | solvekt | intro; klzp_go ]
            | apply klzp_bindz; [ solvekzp | solvekt | solve [eauto 3 with klzpdb] | intro; solve [klqp_go] ]
            | solve [apply klzp_of_klq; klqp_go] ]
  | |- klzp (ret _) => apply klzp_ret
  | |- klzp panic => apply klzp_panic
  | |- klzp (if ?b then _ else _) => destruct b; klzp_go
  | |- klzp (match ?o with Some _ => _ | None => _ end) => destruct o; klzp_go
  | |- klzp (let _ := _ in _) => cbv zeta; klzp_go
  | |- klzp _ => first [ klzp_leaf | idtac ]
  end.
Ltac klp_leaf := first [ solve [eauto 3 with klpdb] | solve [apply klp_of_klq; klqp_leaf] ].
Ltac klp_go :=
  lazymatch goal with
  | |- klp (bind (bind _ _) _) => apply klp_assoc; klp_go
  | |- klp (bind (ret _) _) => apply klp_ret_bind; klp_go
  | |- klp (bind get _) => apply klp_get_bind; intro; klp_go
  | |- klp (bind (if ?b then _ else _) _) => destruct b; klp_go
  | |- klp (bind (match ?o with Some _ => _ | None => _ end) _) => destruct o; klp_go
  | |- klp (bind _ _) => first [ solve [apply klp_of_klq; klqp_go] | apply klp_bind; [ solveK2 | solvekri | solvekt | first [klp_leaf | solve [klp_go]] | intro; klp_go ] ]
  | |- klp (ret _) => apply klp_ret
  | |- klp panic => apply klp_panic
  | |- klp (forM _ _) => apply klp_forM; [ intro; solveK2 | intro; solvekri | intro; solvekt | intro; klp_go ]
  | |- klp (if ?b then _ else _) => destruct b; klp_go
  | |- klp (match ?o with Some _ => _ | None => _ end) => destruct o; klp_go
  | |- klp (match ?o with nil => _ | cons _ _ => _ end) => destruct o; klp_go
  | |- klp (let _ := _ in _) => cbv zeta; klp_go
  | |- klp _ => first [ klp_leaf | idtac ]
  end.

Section RecPN.
Variable cfg : config.
Hint Resolve h_WatchOnly h_RSOR h_own_slot h_ResponseSent h_PreCommitSent h_CommitSent h_ViewChanging h_NotAccepting h_subscribe h_unsubscribe
  h_StopTxFlow h_changeTimer h_getTimestamp h_MakePreHeader h_CreatePreBlock h_broadcast h_rtt h_makeRecoveryMessage h_sendRecoveryMessage
  h_processMissingTx h_sendRecoveryRequest h_makeChangeView h_makePreCommit h_sendPreCommit h_verifyPreCommits h_extendTimer h_GetPrimaryIndex
  h_onRecoveryRequest h_cache_addMessage h_ask_recv h_MakeHeader h_CreateBlock h_makeCommit h_sendCommit h_verifyCommits h_checkCommit
  h_checkPreCommit h_checkPrepare h_onCommit h_onPreCommit h_updateExistingPayloads : kpdb.
Hint Extern 4 (kp Inv2 G2 _) => (apply K2_of_k2; intros; solve [eauto 3 with kpdb]) : kpdb.
Hint Resolve u_WatchOnly u_RSOR u_own_slot u_ResponseSent u_PreCommitSent u_CommitSent u_ViewChanging u_NotAccepting u_subscribe u_unsubscribe
  u_StopTxFlow u_changeTimer u_getTimestamp u_Fill u_MakeHeader u_CreateBlock u_broadcast u_makePrepareRequest u_rtt
  u_makeRecoveryMessage u_sendRecoveryMessage u_processMissingTx u_sendRecoveryRequest u_makeChangeView u_makePrepareResponse
  u_sendPrepareResponse u_makeCommit u_sendCommit u_verifyCommits u_extendTimer u_GetPrimaryIndex u_onRecoveryRequest
  u_cache_addMessage u_ask_recv u_MakePreHeader u_CreatePreBlock u_checkCommit u_verifyPreCommits u_updateExistingPayloads u_onPreCommit : kpdb.
Hint Resolve pq_sendPreCommit pq_checkPreCommit pq_checkPrepare pq_sendPrepareRequest pq_onPrepareResponse pq_onPreCommit : krdb.
Hint Resolve K_onPrepareResponse : kpdb.
Hint Resolve c_WatchOnly c_RSOR c_own_slot c_ResponseSent c_PreCommitSent c_CommitSent c_ViewChanging c_NotAccepting c_subscribe c_unsubscribe
  c_StopTxFlow c_changeTimer c_getTimestamp c_Fill c_MakePreHeader c_CreatePreBlock c_makePrepareRequest c_rtt c_sendRecoveryMessage
  c_processMissingTx c_sendRecoveryRequest c_sendPrepareResponse c_extendTimer c_GetPrimaryIndex c_onRecoveryRequest c_cache_addMessage
  c_ask_recv c_MakeHeader c_CreateBlock c_checkCommit c_sendPreCommit c_sendCommit c_verifyCommits c_verifyPreCommits c_checkPreCommit
  c_checkPrepare c_updateExistingPayloads c_sendPrepareRequest c_onPrepareResponse c_onPreCommit c_onCommit c_makeChangeView y_broadcast : kpdb.
Hint Extern 5 (kp TY AnyC _) => (apply kt_of_kc; solve [eauto 3 with kpdb]) : kpdb.
Ltac fixapp := cbn; let s := fresh "s" in let n := fresh "n" in let P := fresh "P" in intros _ s n P; rewrite <- ?app_assoc in *; cbn [app] in *; exact P.

Section WithIcPN.
Variable ic : Z -> Z -> M unit.
Hypothesis HicK : forall v t, K2 (ic v t).
Hypothesis Hic3 : ICr ic.
Hypothesis Hict : forall v t, kt (ic v t).
Hypothesis Hic5p : IClp ic.
Let Kccv := K_checkChangeView ic HicK.
Let Kscv := K_sendChangeView ic HicK.
Let Kcab := K_createAndCheckBlock cfg ic HicK.
Let Kadd := K_addTransaction cfg ic HicK.
Let Kopr := K_onPrepareRequest cfg ic HicK.
Let Kocv := K_onChangeView cfg ic HicK.
Let Kd0 := K_dispatch0 cfg ic HicK.
Let Knr0 := K_nestedReceive0 cfg ic HicK.
Let Korm := K_onRecoveryMessage cfg ic HicK.
Let Kdis := K_dispatch cfg ic HicK.
Let Korc := K_OnReceive cfg ic HicK.
Hint Resolve HicK Kccv Kscv Kcab Kadd Kopr Kocv Kd0 Knr0 Korm Kdis Korc : kpdb.
Let Tccv := T_checkChangeView ic Hict.
Let Tscv := T_sendChangeView ic Hict.
Let Tcab := T_createAndCheckBlock cfg ic Hict.
Let Tadd := T_addTransaction cfg ic Hict.
Let Topr := T_onPrepareRequest cfg ic Hict.
Let Tocv := T_onChangeView cfg ic Hict.
Let Td0 := T_dispatch0 cfg ic Hict.
Let Tnr0 := T_nestedReceive0 cfg ic Hict.
Let Torm := T_onRecoveryMessage cfg ic Hict.
Let Tdis := T_dispatch cfg ic Hict.
Let Torc := T_OnReceive cfg ic Hict.
Hint Resolve Hict Tccv Tscv Tcab Tadd Topr Tocv Td0 Tnr0 Torm Tdis Torc : kpdb.
Let Zccv := pz_checkChangeView cfg ic HicK Hic3.
Let Zscv := pz_sendChangeView cfg ic HicK Hic3.
Let Zcab := pz_createAndCheckBlock cfg ic HicK Hic3.
Let Zadd := pz_addTransaction cfg ic HicK Hic3.
Hint Resolve Zccv Zscv Zcab Zadd : kzpdb.
Let Qocv := pq_onChangeView cfg ic HicK Hic3.
Hint Resolve Qocv : krdb.
Let Iopr := pi_onPrepareRequest cfg ic HicK Hic3.
Let Id0 := pi_dispatch0 cfg ic HicK Hic3.
Let Inr0 := pi_nestedReceive0 cfg ic HicK Hic3.
Let Iorm := pi_onRecoveryMessage cfg ic HicK Hic3.
Let Idis := pi_dispatch cfg ic HicK Hic3.
Let Iorc := pi_OnReceive cfg ic HicK Hic3.
Hint Resolve Iopr Id0 Inr0 Iorm Idis Iorc : kridb.

(* the ChangeView of checkChangeView ("agreement") and the view change itself happen only while nothing is signed *)
Lemma plz_checkChangeView view : klzp (checkChangeView ic view).
Proof.
  intros vs mi g0 s0 HT H0 Hz. unfold checkChangeView. apply x_get.
  destruct (ViewNumber s0 >=? view) eqn:Ev; [apply x_ret; rewrite app_nil_r; apply L5p_unsigned; exact Hz|]. cbv zeta.
  destruct (_ <? _); [apply x_ret; rewrite app_nil_r; apply L5p_unsigned; exact Hz|].
  rewrite Z.geb_leb in Ev. apply Z.leb_gt in Ev.
  assert (Hpos : KS mi g0 -> 0 < view) by (intros Hk; pose proof (H0 Hk) as (_ & _ & A3 & _); lia).
  eapply x_call; [apply (x_conj _ _ _ _ (c_WatchOnly s0 HT) (k7_frame vs mi g0 s0 _ u_WatchOnly H0))|]. intros wo s1 n1 [[T1 _] [I1 N1]]. cbn beta.
  match goal with |- hx _ (bind ?blk _) _ => assert (Hpre : k7 blk) by (destruct wo; k7_go); assert (Hpt : kt blk) by (destruct wo; kn_go leafc) end.
  eapply x_call; [apply (x_conj _ _ _ _ (Hpt s1 T1) (k7_frame vs mi (g0 ++ n1) s1 _ Hpre I1))|]. intros [] s2 n2 [[T2 _] [I2 N2]]. cbn beta. apply x_get.
  eapply x_conseq; [apply (Hic5p view (lastBlockTimestamp s2) vs mi ((g0 ++ n1) ++ n2) s2 T2 I2)|fixapp].
  intros Hk. pose proof Hk as Hk'. apply KS_app in Hk'. destruct Hk' as [Hk1 _]. apply KS_app in Hk1. destruct Hk1 as [Hk0 _].
  split; [exact (Hpos Hk0)|]. intros Hs. rewrite !nset_app, N1, N2, (Hz Hk0 Hs). reflexivity.
Qed.
Hint Resolve plz_checkChangeView : klzpdb.
Lemma plz_sendChangeView r : klzp (sendChangeView ic r). Proof. unfold sendChangeView. klzp_go. Qed.
Hint Resolve plz_sendChangeView : klzpdb.
Lemma plz_createAndCheckBlock : klzp (createAndCheckBlock cfg ic). Proof. unfold createAndCheckBlock. klzp_go. Qed.
Hint Resolve plz_createAndCheckBlock : klzpdb.
Lemma plz_addTransaction t : klzp (addTransaction cfg ic t). Proof. unfold addTransaction. klzp_go. Qed.
Hint Resolve plz_addTransaction : klzpdb.

Lemma plq_onChangeView m : klqp (onChangeView cfg ic m).
Proof.
  intros vs mi g0 s0 HT H0 H5. unfold onChangeView. apply x_get. cbv zeta.
  destruct (cv_newview m <=? ViewNumber s0); [apply (klqp_of_kc _ (c_onRecoveryRequest cfg m) vs mi g0 s0 HT H0 H5)|].
  eapply x_call; [apply (x_conj _ _ _ _ (c_CommitSent s0 HT) (os_specp CommitPayloads s0))|]. intros cs s1 n1 [[_ C1] (-> & N1 & _)]. cbn beta.
  eapply x_call with (Qx := fun ps s tr => s = s0 /\ nset tr = 0%nat /\ ncv tr = 0%nat /\
                                         (cs = false -> forall mi, KS mi tr -> ps = isSome (slot (PreCommitPayloads s0) (MyIndex s0)))).
  { destruct cs; [apply x_ret; split; [reflexivity|split; [reflexivity|split; [reflexivity|discriminate]]]|].
    eapply x_conseq; [apply (x_conj _ _ _ _ (c_PreCommitSent s0 HT) (os_specp PreCommitPayloads s0))|]. cbn.
    intros r s n [[_ C] (A & B & D)]. split; [exact A|split; [exact B|split; [apply nocv_ncv; exact C|intros _; exact D]]]. }
  intros ps s2 n2 (-> & N2 & C2 & Hps). cbn beta.
  assert (I2 : I7g vs mi ((g0 ++ n1) ++ n2) s0) by (apply I7g_pad; [apply I7g_pad; assumption|assumption]).
  assert (V2 : L5p vs mi ((g0 ++ n1) ++ n2)) by (apply L5p_pad; [apply L5p_pad; [assumption|apply nocv_ncv; exact C1]|assumption]).
  destruct (cs || ps) eqn:Ecp.
  { eapply x_conseq; [apply (klqp_of_kc _ c_sendRecoveryMessage vs mi ((g0 ++ n1) ++ n2) s0 HT I2 V2)|fixapp]. }
  apply orb_false_iff in Ecp. destruct Ecp as [-> ->]. specialize (Hps eq_refl).
  assert (Hz : Z0p vs mi ((g0 ++ n1) ++ n2)).
  { intros Hk Hs. pose proof Hk as Hk'. apply KS_app in Hk'. destruct Hk' as [Hk1 Hkn2]. apply KS_app in Hk1. destruct Hk1 as [Hk0 Hkn1].
    rewrite !nset_app, N1, N2, !Nat.add_0_r. apply (unset_when_no_own_precommit vs mi g0 s0 H0 Hk0); [|exact Hs].
    specialize (Hps mi Hkn2). destruct (slot (PreCommitPayloads s0) (MyIndex s0)); [discriminate Hps|reflexivity]. }
  match goal with |- hx _ ?prog _ => assert (Hrest : klzp prog) by klzp_go end.
  eapply x_conseq; [apply (Hrest vs mi ((g0 ++ n1) ++ n2) s0 HT I2 Hz)|fixapp].
Qed.
Hint Resolve plq_onChangeView : klqpdb.

Lemma pl_onPrepareRequest m : klp (onPrepareRequest cfg ic m).
Proof.
  intros vs mi g0 s0 J0 HT H0 H5. unfold onPrepareRequest.
  eapply x_call; [apply rsor_spec|]. intros rs s1 n1 (-> & -> & Hrs). cbn beta. cbn [app]. destruct rs.
  { assert (Hl : kc (_ <- ViewChanging ;; ret tt)) by kc_go. eapply x_conseq; [apply (klqp_of_kc _ Hl vs mi g0 s0 HT H0 H5)|fixapp]. }
  specialize (Hrs eq_refl).
  assert (Hh : preheader s0 = None).
  { destruct (preheader s0) as [b|] eqn:E; [|reflexivity]. destruct (i_p2 _ J0 b E) as [r Hr]. rewrite Hrs in Hr. discriminate Hr. }
  assert (Hz : Z0p vs mi g0) by (intros Hk Hs; apply (unset_when_no_preheader vs mi g0 s0 H0 Hk Hh Hs)).
  match goal with |- hx _ ?prog _ => assert (Hrest : klzp prog) end.
  { klzp_go. all: try (destruct (p_body m) as [[]|]; klzp_go). }
  eapply x_conseq; [apply (Hrest vs mi g0 s0 HT H0 Hz)|fixapp].
Qed.
Hint Resolve pl_onPrepareRequest : klpdb.

Lemma pl_receive_common d m : (forall x, K2 (d x)) -> (forall x, kri (d x)) -> (forall x, kt (d x)) -> (forall x, klp (d x)) -> klp (receive_common d m).
Proof. intros HdK Hdq Hdt Hd. unfold receive_common. klp_go. Qed.
Lemma pl_dispatch0 m : klp (dispatch0 cfg ic m). Proof. unfold dispatch0. destruct (p_type m) eqn:Ty; klp_go. Qed.
Hint Resolve pl_dispatch0 : klpdb.
Lemma pl_nestedReceive0 m : klp (nestedReceive0 cfg ic m).
Proof.
  unfold nestedReceive0. apply klp_bind; [solveK2|solvekri|solvekt|klp_leaf|intros _].
  apply pl_receive_common; [intros x; apply Kd0|intros x; apply Id0|intros x; apply Td0|intros x; apply pl_dispatch0].
Qed.
Hint Resolve pl_nestedReceive0 : klpdb.
Lemma pl_onRecoveryMessage m : klp (onRecoveryMessage cfg ic m).
Proof. unfold onRecoveryMessage. destruct (p_body m); [apply klp_panic|]. cbv zeta. klp_go. Qed.
Hint Resolve pl_onRecoveryMessage : klpdb.
Lemma pl_dispatch m : klp (dispatch cfg ic m). Proof. unfold dispatch. destruct (p_type m) eqn:Ty; klp_go. Qed.
Lemma pl_OnReceive m : klp (OnReceive cfg ic m).
Proof. unfold OnReceive. apply pl_receive_common; [intros x; apply Kdis|intros x; apply Idis|intros x; apply Tdis|intros x; apply pl_dispatch]. Qed.
Hint Resolve pl_OnReceive : klpdb.
Lemma pl_replay_map n : forall entries, klp (replay_map cfg ic n entries).
Proof.
  pose proof (K_replay_map cfg ic HicK) as HKr. pose proof (pi_replay_map cfg ic HicK Hic3) as Hqr. pose proof (T_replay_map cfg ic Hict) as Htr.
  induction n as [|n IH]; intros entries; destruct entries as [|e entries]; cbn [replay_map]; try apply klp_ret. klp_go.
Qed.
End WithIcPN.
End RecPN.

Section ApiPN.
Variable cfg : config.
Hint Resolve h_WatchOnly h_RSOR h_own_slot h_ResponseSent h_PreCommitSent h_CommitSent h_ViewChanging h_NotAccepting h_subscribe h_unsubscribe
  h_StopTxFlow h_changeTimer h_getTimestamp h_MakePreHeader h_CreatePreBlock h_broadcast h_rtt h_makeRecoveryMessage h_sendRecoveryMessage
  h_processMissingTx h_sendRecoveryRequest h_makeChangeView h_makePreCommit h_sendPreCommit h_verifyPreCommits h_extendTimer h_GetPrimaryIndex
  h_onRecoveryRequest h_cache_addMessage h_ask_recv h_MakeHeader h_CreateBlock h_makeCommit h_sendCommit h_verifyCommits h_checkCommit
  h_checkPreCommit h_checkPrepare h_onCommit h_onPreCommit h_updateExistingPayloads : kpdb.
Hint Extern 4 (kp Inv2 G2 _) => (apply K2_of_k2; intros; solve [eauto 3 with kpdb]) : kpdb.
Hint Resolve u_WatchOnly u_RSOR u_own_slot u_ResponseSent u_PreCommitSent u_CommitSent u_ViewChanging u_NotAccepting u_subscribe u_unsubscribe
  u_StopTxFlow u_changeTimer u_getTimestamp u_Fill u_MakeHeader u_CreateBlock u_broadcast u_makePrepareRequest u_rtt
  u_makeRecoveryMessage u_sendRecoveryMessage u_processMissingTx u_sendRecoveryRequest u_makeChangeView u_makePrepareResponse
  u_sendPrepareResponse u_makeCommit u_sendCommit u_verifyCommits u_extendTimer u_GetPrimaryIndex u_onRecoveryRequest
  u_cache_addMessage u_ask_recv u_MakePreHeader u_CreatePreBlock u_checkCommit u_verifyPreCommits u_updateExistingPayloads u_onPreCommit : kpdb.
Hint Resolve pq_sendPreCommit pq_checkPreCommit pq_checkPrepare pq_sendPrepareRequest pq_onPrepareResponse pq_onPreCommit : krdb.
Hint Resolve K_onPrepareResponse : kpdb.
Hint Resolve c_WatchOnly c_RSOR c_own_slot c_ResponseSent c_PreCommitSent c_CommitSent c_ViewChanging c_NotAccepting c_subscribe c_unsubscribe
  c_StopTxFlow c_changeTimer c_getTimestamp c_Fill c_MakePreHeader c_CreatePreBlock c_makePrepareRequest c_rtt c_sendRecoveryMessage
  c_processMissingTx c_sendRecoveryRequest c_sendPrepareResponse c_extendTimer c_GetPrimaryIndex c_onRecoveryRequest c_cache_addMessage
  c_ask_recv c_MakeHeader c_CreateBlock c_checkCommit c_sendPreCommit c_sendCommit c_verifyCommits c_verifyPreCommits c_checkPreCommit
  c_checkPrepare c_updateExistingPayloads c_sendPrepareRequest c_onPrepareResponse c_onPreCommit c_onCommit c_makeChangeView y_broadcast : kpdb.
Hint Extern 5 (kp TY AnyC _) => (apply kt_of_kc; solve [eauto 3 with kpdb]) : kpdb.

Lemma pl_ic_rest ic view : (forall v t, K2 (ic v t)) -> ICr ic -> (forall v t, kt (ic v t)) -> IClp ic -> klp (ic_rest cfg ic view).
Proof.
  intros HicK Hic Hict Hic5p. pose proof (pi_replay_map cfg ic HicK Hic) as Hr. pose proof (K_replay_map cfg ic HicK) as HKr.
  pose proof (T_replay_map cfg ic Hict) as Htr. pose proof (pl_replay_map cfg ic HicK Hic Hict Hic5p) as Hlr.
  unfold ic_rest. klp_go.
Qed.
Lemma pl_ic_body ic : (forall v t, K2 (ic v t)) -> ICr ic -> (forall v t, kt (ic v t)) -> IClp ic -> IClp (initializeConsensus_body cfg ic).
Proof.
  intros HicK Hic Hict Hic5p view ts vs mi g0 s0 HT H0 Hv. rewrite ic_body_unfold.
  eapply x_call; [apply (x_conj _ _ _ _ (x_conj _ _ _ _ (reset_spec cfg view ts s0) (c_reset cfg view ts s0 HT)) (reset_r cfg view ts vs mi g0 s0 H0 Hv))|].
  intros [] s1 n1 [[(J1 & _) (T1 & _)] (I1 & N1)]. cbn beta.
  assert (V1 : L5p vs mi (g0 ++ n1)).
  { apply L5p_unsigned. intros Hk Hs. apply KS_app in Hk. destruct Hk as [Hk0 _]. destruct (Hv Hk0) as [_ Hz]. rewrite nset_app, N1, (Hz Hs). reflexivity. }
  eapply x_conseq; [apply (pl_ic_rest ic view HicK Hic Hict Hic5p vs mi (g0 ++ n1) s1 J1 T1 I1 V1)|]. cbn. intros _ s n P. rewrite app_assoc. exact P.
Qed.
Lemma pl_initializeConsensus fuel : IClp (initializeConsensus cfg fuel).
Proof.
  induction fuel as [|f IH]; [intros v t vs mi g0 s0 _ _ _; apply x_oof|]. cbn [initializeConsensus].
  apply pl_ic_body; [intros v t; apply K2_initializeConsensus|apply pq_initializeConsensus|intros v t; apply T_initializeConsensus|exact IH].
Qed.
Lemma pl_init : IClp (init cfg). Proof. apply pl_initializeConsensus. Qed.
Let HK := fun v t => K_init cfg v t.
Let HQ := pq_init cfg.
Let HT := fun v t => T_init cfg v t.
Let HLp := pl_init.

Definition Fresh5p (s : nstate) (tr : tr_t) : Prop := forall mi, L5p (Validators s) mi tr.
Lemma L5p_Fresh5 s tr : (forall mi, exists vs, I7g vs mi tr s /\ L5p vs mi tr) -> Fresh5p s tr.
Proof.
  intros H mi Hk Hs. destruct (H mi) as (vs & H3 & H5). pose proof (H3 Hk) as HI. assert (E : Validators s = vs) by apply HI.
  rewrite E in Hs. apply (H5 Hk Hs).
Qed.

Lemma init_0lp ts s0 : TY s0 -> hx s0 (init cfg 0 ts) (fun _ s tr => Fresh5p s tr).
Proof.
  intros HT0. rewrite init_unfold. pose proof (pq_initializeConsensus cfg 257) as Hic. pose proof (K2_initializeConsensus cfg 257) as HicK.
  pose proof (T_initializeConsensus cfg 257) as Hict. pose proof (pl_initializeConsensus 257) as Hic5p.
  revert Hic HicK Hict Hic5p. generalize (initializeConsensus cfg 257) as ic. intros ic Hic HicK Hict Hic5p. rewrite ic_body_unfold.
  eapply x_call; [apply (x_conj _ _ _ _ (x_conj _ _ _ _ (reset_spec cfg 0 ts s0) (c_reset cfg 0 ts s0 HT0)) (reset_0p cfg ts s0))|].
  intros [] s1 n1 [[(J1 & _) (T1 & _)] (N1 & P1)]. cbn beta.
  assert (HF : hx s1 (ic_rest cfg ic 0) (fun _ s tr => forall mi, I7g (Validators s1) mi (n1 ++ tr) s /\ L5p (Validators s1) mi (n1 ++ tr))).
  { apply (x_forall 0 s1 _ (fun mi _ s tr => I7g (Validators s1) mi (n1 ++ tr) s /\ L5p (Validators s1) mi (n1 ++ tr))). intros mi.
    assert (I1 : I7g (Validators s1) mi n1 s1) by (intros Hk; rewrite N1; apply (P1 mi _ Hk)).
    assert (V1 : L5p (Validators s1) mi n1) by (apply L5p_unsigned; intros _ _; exact N1).
    apply (x_conj _ _ _ _ (pi_ic_rest cfg ic 0 HicK Hic (Validators s1) mi n1 s1 J1 I1) (pl_ic_rest ic 0 HicK Hic Hict Hic5p (Validators s1) mi n1 s1 J1 T1 I1 V1)). }
  eapply x_conseq; [apply HF|]. cbn. intros _ s n P. apply L5p_Fresh5. intros mi. exists (Validators s1). apply P.
Qed.

Lemma fresh_Start5p ts s0 : TY s0 -> hx s0 (Start cfg ts) (fun _ s tr => Fresh5p s tr).
Proof.
  intros HT0. unfold Start. apply x_modify.
  match goal with |- hx ?st _ _ => assert (HT1 : TY st) by (destruct HT0; split; assumption) end.
  eapply x_call; [apply (x_conj _ _ _ _ (x_conj _ _ _ _ (init_0p cfg ts _) (T_init cfg 0 ts _ HT1)) (init_0lp ts _ HT1))|]. intros [] s1 n1 [[[J1 F1] [T1 _]] F5]. cbn beta.
  match goal with |- hx _ ?prog _ => assert (Hq : kr prog) by kr_go; assert (Hv : klqp prog) by klqp_go end.
  eapply x_conseq; [apply (x_forall 0 s1 _ (fun mi _ s tr => I7g (Validators s1) mi (n1 ++ tr) s /\ L5p (Validators s1) mi (n1 ++ tr)))|].
  - intros mi. apply (x_conj _ _ _ _ (Hq (Validators s1) mi n1 s1 (Fresh7_I7g _ _ _ F1)) (Hv (Validators s1) mi n1 s1 T1 (Fresh7_I7g _ _ _ F1) (F5 mi))).
  - cbn. intros _ s n P. apply L5p_Fresh5. intros mi. exists (Validators s1). apply P.
Qed.

Lemma klqp_os_commit {B} (f : bool -> M B) : klqp (f true) -> klzp (f false) -> klqp (bind PreCommitSent f).
Proof.
  intros Ht Hf vs mi g0 s0 HT0 H0 H5. eapply x_call; [apply (x_conj _ _ _ _ (c_PreCommitSent s0 HT0) (os_specp PreCommitPayloads s0))|].
  intros cs s1 n1 [[_ C1] (-> & N1 & Hcs)]. cbn beta.
  assert (I1 : I7g vs mi (g0 ++ n1) s0) by (apply I7g_pad; assumption).
  assert (V1 : L5p vs mi (g0 ++ n1)) by (apply L5p_pad; [assumption|apply nocv_ncv; exact C1]).
  destruct cs.
  - eapply x_conseq; [apply (Ht vs mi (g0 ++ n1) s0 HT0 I1 V1)|]. cbn. intros b s n P. rewrite app_assoc. exact P.
  - eapply x_conseq; [apply (Hf vs mi (g0 ++ n1) s0 HT0 I1)|].
    + intros Hk Hs. apply KS_app in Hk. destruct Hk as [Hk0 Hk1]. rewrite nset_app, N1, Nat.add_0_r.
      apply (unset_when_no_own_precommit vs mi g0 s0 H0 Hk0); [|exact Hs].
      specialize (Hcs mi Hk1). destruct (slot (PreCommitPayloads s0) (MyIndex s0)); [discriminate Hcs|reflexivity].
    + cbn. intros b s n P. rewrite app_assoc. exact P.
Qed.
Ltac lvl0 := apply kr_of_k3; solvek7.
Ltac lvl0t := apply kt_of_kc; solvekc.
Ltac lvl0lp := apply klqp_of_kc; solvekc.
Lemma plq_OnTransaction t : klqp (OnTransaction cfg t).
Proof.
  assert (Ha : forall t, klzp (addTransaction cfg (init cfg) t)) by (exact (plz_addTransaction cfg (init cfg) HK HQ HT HLp)).
  assert (Haz : forall t, kzp (addTransaction cfg (init cfg) t)) by (exact (pz_addTransaction cfg (init cfg) HK HQ)).
  assert (Hat : forall t, kt (addTransaction cfg (init cfg) t)) by (exact (T_addTransaction cfg (init cfg) HT)).
  unfold OnTransaction. apply klqp_get_bind; intro s. destruct (negb (IsBackup s)); [apply klqp_ret|].
  apply klqp_bind; [lvl0|lvl0t|lvl0lp|intro na]. destruct na; [apply klqp_ret|].
  apply klqp_bind; [lvl0|lvl0t|lvl0lp|intro rs]. destruct (negb rs); [apply klqp_ret|].
  apply klqp_bind; [lvl0|lvl0t|lvl0lp|intro x1]. destruct x1; [apply klqp_ret|].
  apply klqp_os_commit; [cbv beta iota; apply klqp_ret|cbv beta iota; klzp_go].
Qed.
Lemma plq_onTimeout h v f : klqp (onTimeout cfg h v f).
Proof.
  assert (Hs : forall r, klzp (sendChangeView (init cfg) r)) by (exact (plz_sendChangeView cfg (init cfg) HK HQ HT HLp)).
  assert (Hsz : forall r, kzp (sendChangeView (init cfg) r)) by (exact (pz_sendChangeView cfg (init cfg) HK HQ)).
  assert (Hst : forall r, kt (sendChangeView (init cfg) r)) by (exact (T_sendChangeView (init cfg) HT)).
  unfold onTimeout. apply klqp_bind; [lvl0|lvl0t|lvl0lp|intro wo]. apply klqp_get_bind; intro s.
  destruct (wo || blockProcessed s); [apply klqp_ret|]. destruct (_ || _); [apply klqp_ret|].
  apply klqp_bind; [destruct (IsPrimary s); [lvl0|apply kr_ret]|destruct (IsPrimary s); [lvl0t|apply kp_ret]|destruct (IsPrimary s); [lvl0lp|apply klqp_ret]|intro rs].
  destruct (IsPrimary s && negb rs); [apply klqp_of_kc, c_sendPrepareRequest|].
  destruct (_ || _); [|apply klqp_ret].
  apply klqp_bind; [lvl0|lvl0t|lvl0lp|intro cs]. destruct cs; cbv beta iota; cbn [orb]; [klqp_go|].
  apply klqp_os_commit; [cbv beta iota; klqp_go|cbv beta iota; klzp_go].
Qed.
Lemma plq_OnNewTransaction : klqp (OnNewTransaction cfg).
Proof. unfold OnNewTransaction. pose proof (pq_onTimeout cfg) as Ht. pose proof plq_onTimeout as Hv. pose proof (T_onTimeout cfg) as Htt. klqp_go. Qed.

Lemma pl_run_event e : continues e -> klp (run_event cfg e).
Proof.
  destruct e; cbn [run_event continues]; intros Hc; try contradiction.
  - apply (pl_OnReceive cfg (init cfg) HK HQ HT HLp). - apply klp_of_klq, plq_onTimeout. - apply klp_of_klq, plq_OnTransaction. - apply klp_of_klq, plq_OnNewTransaction.
Qed.

Theorem epoch_inv5p st g : Epoch cfg st g -> Fresh5p st g.
Proof.
  induction 1 as [st ts sc st' tr HR Hs|st ts sc st' tr HR Hs|st g ev sc st' tr HE IH Hc Hs].
  - apply (step_hx cfg st (EStart ts) sc st' tr (fun s n => Fresh5p s n) (fresh_Start5p ts st (typed_reach cfg st HR)) Hs).
  - apply (step_hx cfg st (EReset ts) sc st' tr (fun s n => Fresh5p s n) (init_0lp ts st (typed_reach cfg st HR)) Hs).
  - apply L5p_Fresh5. intros mi. exists (Validators st).
    apply (step_hx cfg st ev sc st' tr (fun s n => I7g (Validators st) mi (g ++ n) s /\ L5p (Validators st) mi (g ++ n))); [|exact Hs].
    pose proof (epoch_reach cfg st g HE) as HR.
    pose proof (proposal_reach cfg st HR) as J. pose proof (typed_reach cfg st HR) as HTy.
    pose proof (Fresh7_I7g _ _ mi (epoch_invp cfg st g HE)) as H3.
    apply (x_conj _ _ _ _ (pi_run_event cfg ev Hc (Validators st) mi g st J H3) (pl_run_event ev Hc (Validators st) mi g st J HTy H3 (IH mi))).
Qed.

(* in every history of an epoch, every broadcast of a ChangeView comes before the first signature request *)
Theorem change_views_precede_the_precommit st g mi g1 s p g2 :
  Epoch cfg st g -> KS mi g -> zlen (Validators st) <= 65536 ->
  g = g1 ++ (s, CBroadcast p) :: g2 -> p_type p = ChangeViewT -> nset g1 = 0%nat.
Proof.
  intros HE Hk Hs E Ty. apply (epoch_inv5p st g HE mi Hk Hs g1 (s, CBroadcast p) g2 E). cbn. rewrite Ty. reflexivity.
Qed.
(* ... so a call made after the node has signed broadcasts no ChangeView *)
Theorem no_change_view_after_the_precommit st g ev sc st' tr mi s p :
  Epoch cfg st g -> continues ev -> step cfg st ev sc = Ok (st', tr) -> KS mi (g ++ tr) -> zlen (Validators st) <= 65536 -> nset g <> 0%nat ->
  In (s, CBroadcast p) tr -> p_type p <> ChangeViewT.
Proof.
  intros HE Hc Hs Hk Hsm Hn Hin Ty.
  assert (HE' : Epoch cfg st' (g ++ tr)) by (eapply EpochStep; eauto).
  assert (Hsm' : zlen (Validators st') <= 65536) by (rewrite (epoch_validatorsp cfg st g ev sc st' tr mi HE Hc Hs Hk); exact Hsm).
  apply in_split in Hin. destruct Hin as (t1 & t2 & ->).
  pose proof (change_views_precede_the_precommit st' _ mi (g ++ t1) s p t2 HE' Hk Hsm' ltac:(rewrite <- app_assoc; reflexivity) Ty) as H0.
  rewrite nset_app in H0. lia.
Qed.
End ApiPN.


(* a boolean check of a recorded history against the hypotheses of the lock theorems (non-vacuity example): an epoch in which the
   node has asked for pre-commit data, and one more call *)
Definition lockp_okb (cfg : config) (h : list (event * list call)) (ev : event) (sc : list call) (mi : Z) : bool :=
  match h with
  | (EStart ts, sc0) :: r =>
      match step cfg fresh_state (EStart ts) sc0 with
      | Ok (s1, tr1) =>
          match replay cfg s1 r with
          | Some (sf, l) =>
              let g := tr1 ++ concat (map snd l) in
              match step cfg sf ev sc with
              | Ok (st', tr) =>
                  forallb continuesb (map fst r) && continuesb ev && KSb mi (g ++ tr) && (zlen (Validators sf) <=? 65536) && negb (Nat.eqb (nset g) 0)
              | _ => false end
          | None => false end
      | _ => false end
  | _ => false end.
Lemma lockp_okb_sound cfg h ev sc mi : lockp_okb cfg h ev sc mi = true ->
  exists st g st' tr, Epoch cfg st g /\ continues ev /\ step cfg st ev sc = Ok (st', tr) /\ KS mi (g ++ tr) /\
                      zlen (Validators st) <= 65536 /\ nset g <> 0%nat.
Proof.
  unfold lockp_okb. destruct h as [|[e0 sc0] r]; [discriminate|]. destruct e0; try discriminate.
  destruct (step cfg fresh_state (EStart ts) sc0) as [[s1 tr1]| | | |] eqn:Es; try discriminate.
  destruct (replay cfg s1 r) as [[sf l]|] eqn:Er; [|discriminate]. cbv zeta.
  destruct (step cfg sf ev sc) as [[st' tr]| | | |] eqn:E2; try discriminate. intros H.
  apply andb_true_iff in H. destruct H as [H H5]. apply andb_true_iff in H. destruct H as [H H4]. apply andb_true_iff in H. destruct H as [H H3].
  apply andb_true_iff in H. destruct H as [H1 H2].
  exists sf, (tr1 ++ concat (map snd l)), st', tr. split; [|split; [|split; [|split; [|split]]]].
  - apply (replay_epoch cfg r s1 sf l tr1); [eapply EpochStart; [apply Reach0|exact Es]|exact H1|exact Er].
  - destruct ev; try discriminate H2; exact I.
  - exact E2.
  - apply KSb_sound. exact H3.
  - apply Z.leb_le in H4. exact H4.
  - apply negb_true_iff, Nat.eqb_neq in H5. exact H5.
Qed.
