(* C03, "once it has broadcast a commit it never asks for a view change", on the node's outgoing messages: in every history of
   an epoch every broadcast of a ChangeView payload comes before the first block-signature request - after the node has signed,
   no API call makes it broadcast a ChangeView.
   Lk g: every ChangeView broadcast of the trace g is preceded by no signature request.  The functions that broadcast one
   (sendChangeView, checkChangeView) are reached only while nothing is signed (the judgement kz of SignLRec.v); everything
   else never broadcasts one (the family kc of Typed.v; the typing of the PreCommit and Commit tables is what makes the
   re-broadcast of a stored own PreCommit / Commit harmless). *)
From DbftV Require Import Replay.
From DbftV Require Export Typed.

Definition ncv (tr : tr_t) : nat := length (filter (fun sc => is_cv (snd sc)) tr).
Lemma nocv_ncv tr : trG NoCV tr -> ncv tr = 0%nat.
Proof. unfold trG, ncv, NoCV. induction 1 as [|[s c] tr H _ IH]; [reflexivity|]. cbn in *. rewrite H. exact IH. Qed.
Lemma ncv_in tr sc : ncv tr = 0%nat -> In sc tr -> is_cv (snd sc) = false.
Proof.
  unfold ncv. induction tr as [|x r IH]; [intros _ []|]. cbn [filter]. destruct (is_cv (snd x)) eqn:E; [discriminate|].
  intros H [<-|Hin]; [exact E|apply IH; assumption].
Qed.
Definition Lk (g : tr_t) : Prop := forall g1 sc g2, g = g1 ++ sc :: g2 -> is_cv (snd sc) = true -> nsign g1 = 0%nat.
Lemma Lk_unsigned g : nsign g = 0%nat -> Lk g.
Proof. intros H g1 sc g2 -> _. rewrite nsign_app in H. lia. Qed.
Lemma Lk_app g n : Lk g -> ncv n = 0%nat -> Lk (g ++ n).
Proof.
  intros HL Hn g1 sc g2 E Hc. apply app_eq_app in E. destruct E as (l & [[E1 E2]|[E1 E2]]).
  - destruct l as [|x l'].
    + cbn in E2. assert (Hin : In sc n) by (rewrite <- E2; left; reflexivity). rewrite (ncv_in _ _ Hn Hin) in Hc. discriminate Hc.
    + injection E2 as <- E2. apply (HL g1 sc l'); [rewrite E1; reflexivity|exact Hc].
  - assert (Hin : In sc n) by (rewrite E2; apply in_or_app; right; left; reflexivity). rewrite (ncv_in _ _ Hn Hin) in Hc. discriminate Hc.
Qed.

Definition L5g (vs : list key) (mi : Z) (g : tr_t) : Prop := KS mi g -> zlen vs <= 65536 -> Lk g.
Definition klq {A} (x : M A) : Prop :=
  forall vs mi g0 s0, TY s0 -> I3g vs mi g0 s0 -> L5g vs mi g0 -> hx s0 x (fun _ s tr => L5g vs mi (g0 ++ tr)).
Definition klz {A} (x : M A) : Prop :=
  forall vs mi g0 s0, TY s0 -> I3g vs mi g0 s0 -> Z0 vs mi g0 -> hx s0 x (fun _ s tr => L5g vs mi (g0 ++ tr)).
Definition kl {A} (x : M A) : Prop :=
  forall vs mi g0 s0, Inv2 s0 -> TY s0 -> I3g vs mi g0 s0 -> L5g vs mi g0 -> hx s0 x (fun _ s tr => L5g vs mi (g0 ++ tr)).
Definition ICl (ic : Z -> Z -> M unit) : Prop :=
  forall v t vs mi g0 s0, TY s0 -> I3g vs mi g0 s0 -> (KS mi g0 -> 0 < v /\ (zlen vs <= 65536 -> nsign g0 = 0%nat)) ->
  hx s0 (ic v t) (fun _ s tr => L5g vs mi (g0 ++ tr)).

Lemma L5g_unsigned vs mi g : Z0 vs mi g -> L5g vs mi g.
Proof. intros Hz Hk Hs. apply Lk_unsigned. apply (Hz Hk Hs). Qed.
Lemma L5g_pad vs mi g n : L5g vs mi g -> ncv n = 0%nat -> L5g vs mi (g ++ n).
Proof. intros H Hn Hk Hs. apply KS_app in Hk. destruct Hk as [Hk _]. apply Lk_app; [apply (H Hk Hs)|exact Hn]. Qed.

Lemma klq_of_kc {A} (x : M A) : kc x -> klq x.
Proof.
  intros Hx vs mi g0 s0 HT _ H5. eapply x_conseq; [apply (Hx s0 HT)|]. cbn. intros _ s n [_ T]. apply L5g_pad; [exact H5|apply nocv_ncv; exact T].
Qed.
Lemma klq_ret {A} (a : A) : klq (ret a).
Proof. intros vs mi g0 s0 _ _ H. apply x_ret. rewrite app_nil_r. exact H. Qed.
Lemma klq_panic {A} : klq (@panic A). Proof. intros vs mi g0 s0 _ _ _. apply x_panic. Qed.
Lemma klq_fatal {A} : klq (@fatal A). Proof. intros vs mi g0 s0 _ _ _. apply x_fatal. Qed.
Lemma klq_oof {A} : klq (@out_of_fuel A). Proof. intros vs mi g0 s0 _ _ _. apply x_oof. Qed.
Lemma klq_bind {A B} (x : M A) (f : A -> M B) : kq x -> kt x -> klq x -> (forall a, klq (f a)) -> klq (bind x f).
Proof.
  intros Hq Ht Hx Hf vs mi g0 s0 HT H3 H5.
  eapply x_call; [apply (x_conj _ _ _ _ (Ht s0 HT) (x_conj _ _ _ _ (Hq vs mi g0 s0 H3) (Hx vs mi g0 s0 HT H3 H5)))|].
  intros a s1 n1 [[T1 _] [P3 P5]]. cbn beta. eapply x_conseq; [apply (Hf a vs mi (g0 ++ n1) s1 T1 P3 P5)|]. cbn. intros b s n P. rewrite app_assoc. exact P.
Qed.
Lemma klq_assoc {A B C} (x : M A) (g : A -> M B) (f : B -> M C) : klq (bind x (fun a => bind (g a) f)) -> klq (bind (bind x g) f).
Proof. intros H vs mi g0 s0 HT H3 H5. apply x_assoc. apply H; assumption. Qed.
Lemma klq_ret_bind {A B} (a : A) (f : A -> M B) : klq (f a) -> klq (bind (ret a) f).
Proof. intros H vs mi g0 s0 HT H3 H5. apply x_ret_bind. apply H; assumption. Qed.
Lemma klq_get_bind {B} (f : nstate -> M B) : (forall s, klq (f s)) -> klq (bind get f).
Proof. intros H vs mi g0 s0 HT H3 H5. apply x_get. apply H; assumption. Qed.
Lemma klq_forM {T} (l : list T) (f : T -> M unit) : (forall a, kq (f a)) -> (forall a, kt (f a)) -> (forall a, klq (f a)) -> klq (forM l f).
Proof. intros Hq Ht Hf. induction l as [|a l IH]; cbn [forM]; [apply klq_ret|]. apply klq_bind; auto. Qed.

Lemma klz_of_klq {A} (x : M A) : klq x -> klz x.
Proof. intros H vs mi g0 s0 HT H3 Hz. apply (H vs mi g0 s0 HT H3). apply L5g_unsigned. exact Hz. Qed.
Lemma klz_of_k3 {A} (x : M A) : k3 x -> klz x.
Proof.
  intros Hx vs mi g0 s0 _ H3 Hz. eapply x_conseq; [apply (k3_frame vs mi g0 s0 x Hx H3)|].
  cbn. intros _ s n [_ N]. apply L5g_unsigned. apply Z0_pad; assumption.
Qed.
Lemma klz_ret {A} (a : A) : klz (ret a). Proof. apply klz_of_klq, klq_ret. Qed.
Lemma klz_panic {A} : klz (@panic A). Proof. apply klz_of_klq, klq_panic. Qed.
Lemma klz_bind0 {A B} (x : M A) (f : A -> M B) : k3 x -> kt x -> (forall a, klz (f a)) -> klz (bind x f).
Proof.
  intros Hx Ht Hf vs mi g0 s0 HT H3 Hz. eapply x_call; [apply (x_conj _ _ _ _ (Ht s0 HT) (k3_frame vs mi g0 s0 x Hx H3))|].
  intros a s1 n1 [[T1 _] [P1 N1]]. cbn beta.
  eapply x_conseq; [apply (Hf a vs mi (g0 ++ n1) s1 T1 P1 (Z0_pad _ _ _ _ Hz N1))|]. cbn. intros b s n P. rewrite app_assoc. exact P.
Qed.
Lemma klz_bindz {A B} (x : M A) (f : A -> M B) : kz x -> kt x -> klz x -> (forall a, klq (f a)) -> klz (bind x f).
Proof.
  intros Hq Ht Hx Hf vs mi g0 s0 HT H3 Hz.
  eapply x_call; [apply (x_conj _ _ _ _ (Ht s0 HT) (x_conj _ _ _ _ (Hq vs mi g0 s0 H3 Hz) (Hx vs mi g0 s0 HT H3 Hz)))|].
  intros a s1 n1 [[T1 _] [P3 P5]]. cbn beta. eapply x_conseq; [apply (Hf a vs mi (g0 ++ n1) s1 T1 P3 P5)|]. cbn. intros b s n P. rewrite app_assoc. exact P.
Qed.
Lemma klz_assoc {A B C} (x : M A) (g : A -> M B) (f : B -> M C) : klz (bind x (fun a => bind (g a) f)) -> klz (bind (bind x g) f).
Proof. intros H vs mi g0 s0 HT H3 Hz. apply x_assoc. apply H; assumption. Qed.
Lemma klz_ret_bind {A B} (a : A) (f : A -> M B) : klz (f a) -> klz (bind (ret a) f).
Proof. intros H vs mi g0 s0 HT H3 Hz. apply x_ret_bind. apply H; assumption. Qed.
Lemma klz_get_bind {B} (f : nstate -> M B) : (forall s, klz (f s)) -> klz (bind get f).
Proof. intros H vs mi g0 s0 HT H3 Hz. apply x_get. apply H; assumption. Qed.

Lemma kl_of_klq {A} (x : M A) : klq x -> kl x.
Proof. intros H vs mi g0 s0 _ HT H3 H5. apply (H vs mi g0 s0 HT H3 H5). Qed.
Lemma kl_ret {A} (a : A) : kl (ret a). Proof. apply kl_of_klq, klq_ret. Qed.
Lemma kl_panic {A} : kl (@panic A). Proof. apply kl_of_klq, klq_panic. Qed.
Lemma kl_bind {A B} (x : M A) (f : A -> M B) : K2 x -> kqi x -> kt x -> kl x -> (forall a, kl (f a)) -> kl (bind x f).
Proof.
  intros HK Hq Ht Hx Hf vs mi g0 s0 J0 HT H3 H5.
  eapply x_call; [apply (x_conj _ _ _ _ (x_conj _ _ _ _ (HK s0 J0) (Ht s0 HT)) (x_conj _ _ _ _ (Hq vs mi g0 s0 J0 H3) (Hx vs mi g0 s0 J0 HT H3 H5)))|].
  intros a s1 n1 [[[J1 _] [T1 _]] [P3 P5]]. cbn beta.
  eapply x_conseq; [apply (Hf a vs mi (g0 ++ n1) s1 J1 T1 P3 P5)|]. cbn. intros b s n P. rewrite app_assoc. exact P.
Qed.
Lemma kl_assoc {A B C} (x : M A) (g : A -> M B) (f : B -> M C) : kl (bind x (fun a => bind (g a) f)) -> kl (bind (bind x g) f).
Proof. intros H vs mi g0 s0 J0 HT H3 H5. apply x_assoc. apply H; assumption. Qed.
Lemma kl_ret_bind {A B} (a : A) (f : A -> M B) : kl (f a) -> kl (bind (ret a) f).
Proof. intros H vs mi g0 s0 J0 HT H3 H5. apply x_ret_bind. apply H; assumption. Qed.
Lemma kl_get_bind {B} (f : nstate -> M B) : (forall s, kl (f s)) -> kl (bind get f).
Proof. intros H vs mi g0 s0 J0 HT H3 H5. apply x_get. apply H; assumption. Qed.
Lemma kl_forM {T} (l : list T) (f : T -> M unit) :
  (forall a, K2 (f a)) -> (forall a, kqi (f a)) -> (forall a, kt (f a)) -> (forall a, kl (f a)) -> kl (forM l f).
Proof. intros HK Hq Ht Hf. induction l as [|a l IH]; cbn [forM]; [apply kl_ret|]. apply kl_bind; auto. Qed.

Create HintDb klqdb discriminated.
Create HintDb klzdb discriminated.
Create HintDb kldb discriminated.
Ltac solvekc := solve [ eauto 3 with kpdb | kc_go ].
Ltac solvekt := solve [ eauto 3 with kpdb | apply kt_of_kc; solvekc | kn_go leafc ].
Ltac klq_leaf := first [ solve [eauto 3 with klqdb] | solve [apply klq_of_kc; solvekc] ].
Ltac klq_go :=
  lazymatch goal with
  | |- klq (bind (bind _ _) _) => apply klq_assoc; klq_go
  | |- klq (bind (ret _) _) => apply klq_ret_bind; klq_go
  | |- klq (bind get _) => apply klq_get_bind; intro; klq_go
  | |- klq (bind (if ?b then _ else _) _) => destruct b; klq_go
  | |- klq (bind (match ?o with Some _ => _ | None => _ end) _) => destruct o; klq_go
  | |- klq (bind _ _) => first [ klq_leaf | apply klq_bind; [ solvekq | solvekt | first [klq_leaf | solve [klq_go]] | intro; klq_go ] ]
  | |- klq (ret _) => apply klq_ret
  | |- klq panic => apply klq_panic
  | |- klq fatal => apply klq_fatal
  | |- klq out_of_fuel => apply klq_oof
  | |- klq (forM _ _) => apply klq_forM; [ intro; solvekq | intro; solvekt | intro; klq_go ]
  | |- klq (if ?b then _ else _) => destruct b; klq_go
  | |- klq (match ?o with Some _ => _ | None => _ end) => destruct o; klq_go
  | |- klq (match ?o with nil => _ | cons _ _ => _ end) => destruct o; klq_go
  | |- klq (let _ := _ in _) => cbv zeta; klq_go
  | |- klq _ => first [ klq_leaf | idtac ]
  end.
Ltac klz_leaf := first [ solve [eauto 3 with klzdb] | solve [apply klz_of_k3; solvek3] | solve [apply klz_of_klq; klq_leaf] ].
Ltac klz_go :=
  lazymatch goal with
  | |- klz (bind (bind _ _) _) => apply klz_assoc; klz_go
  | |- klz (bind (ret _) _) => apply klz_ret_bind; klz_go
  | |- klz (bind get _) => apply klz_get_bind; intro; klz_go
  | |- klz (bind (if ?b then _ else _) _) => destruct b; klz_go
  | |- klz (bind (match ?o with Some _ => _ | None => _ end) _) => destruct o; klz_go
  | |- klz (bind _ _) =>
      first [ apply klz_bind0; [ solvek3 | solvekt | intro; klz_go ]
            | apply klz_bindz; [ solvekz | solvekt | solve [eauto 3 with klzdb] | intro; solve [klq_go] ]
            | solve [apply klz_of_klq; klq_go] ]
  | |- klz (ret _) => apply klz_ret
  | |- klz panic => apply klz_panic
  | |- klz (if ?b then _ else _) => destruct b; klz_go
  | |- klz (match ?o with Some _ => _ | None => _ end) => destruct o; klz_go
  | |- klz (let _ := _ in _) => cbv zeta; klz_go
  | |- klz _ => first [ klz_leaf | idtac ]
  end.
Ltac kl_leaf := first [ solve [eauto 3 with kldb] | solve [apply kl_of_klq; klq_leaf] ].
Ltac kl_go :=
  lazymatch goal with
  | |- kl (bind (bind _ _) _) => apply kl_assoc; kl_go
  | |- kl (bind (ret _) _) => apply kl_ret_bind; kl_go
  | |- kl (bind get _) => apply kl_get_bind; intro; kl_go
  | |- kl (bind (if ?b then _ else _) _) => destruct b; kl_go
  | |- kl (bind (match ?o with Some _ => _ | None => _ end) _) => destruct o; kl_go
  | |- kl (bind _ _) => first [ solve [apply kl_of_klq; klq_go] | apply kl_bind; [ solveK2 | solvekqi | solvekt | first [kl_leaf | solve [kl_go]] | intro; kl_go ] ]
  | |- kl (ret _) => apply kl_ret
  | |- kl panic => apply kl_panic
  | |- kl (forM _ _) => apply kl_forM; [ intro; solveK2 | intro; solvekqi | intro; solvekt | intro; kl_go ]
  | |- kl (if ?b then _ else _) => destruct b; kl_go
  | |- kl (match ?o with Some _ => _ | None => _ end) => destruct o; kl_go
  | |- kl (match ?o with nil => _ | cons _ _ => _ end) => destruct o; kl_go
  | |- kl (let _ := _ in _) => cbv zeta; kl_go
  | |- kl _ => first [ kl_leaf | idtac ]
  end.

Section RecN.
Variable cfg : config.
Hint Resolve h_WatchOnly h_RSOR h_own_slot h_ResponseSent h_PreCommitSent h_CommitSent h_ViewChanging h_NotAccepting h_subscribe h_unsubscribe
  h_StopTxFlow h_changeTimer h_getTimestamp h_MakePreHeader h_CreatePreBlock h_broadcast h_rtt h_makeRecoveryMessage h_sendRecoveryMessage
  h_processMissingTx h_sendRecoveryRequest h_makeChangeView h_makePreCommit h_sendPreCommit h_verifyPreCommits h_extendTimer h_GetPrimaryIndex
  h_onRecoveryRequest h_cache_addMessage h_ask_recv h_MakeHeader h_CreateBlock h_makeCommit h_sendCommit h_verifyCommits h_checkCommit
  h_checkPreCommit h_checkPrepare h_onCommit h_onPreCommit h_updateExistingPayloads : kpdb.
Hint Extern 4 (kp Inv2 G2 _) => (apply K2_of_k2; intros; solve [eauto 3 with kpdb]) : kpdb.
Hint Resolve t_WatchOnly t_RSOR t_own_slot t_ResponseSent t_PreCommitSent t_CommitSent t_ViewChanging t_NotAccepting t_subscribe t_unsubscribe
  t_StopTxFlow t_changeTimer t_getTimestamp t_Fill t_MakePreHeader t_CreatePreBlock t_broadcast t_makePrepareRequest t_rtt
  t_makeRecoveryMessage t_sendRecoveryMessage t_processMissingTx t_sendRecoveryRequest t_makeChangeView t_makePrepareResponse
  t_sendPrepareResponse t_makePreCommit t_sendPreCommit t_verifyPreCommits t_extendTimer t_GetPrimaryIndex t_onRecoveryRequest
  t_cache_addMessage t_ask_recv t_MakeHeader t_CreateBlock t_checkCommit t_verifyCommits t_updateExistingPayloads t_onCommit : kpdb.
Hint Resolve q_sendCommit q_checkPreCommit q_checkPrepare q_sendPrepareRequest q_onPrepareResponse q_onPreCommit : kqdb.
Hint Resolve K_onPrepareResponse : kpdb.
Hint Resolve c_WatchOnly c_RSOR c_own_slot c_ResponseSent c_PreCommitSent c_CommitSent c_ViewChanging c_NotAccepting c_subscribe c_unsubscribe
  c_StopTxFlow c_changeTimer c_getTimestamp c_Fill c_MakePreHeader c_CreatePreBlock c_makePrepareRequest c_rtt c_sendRecoveryMessage
  c_processMissingTx c_sendRecoveryRequest c_sendPrepareResponse c_extendTimer c_GetPrimaryIndex c_onRecoveryRequest c_cache_addMessage
  c_ask_recv c_MakeHeader c_CreateBlock c_checkCommit c_sendPreCommit c_sendCommit c_verifyCommits c_verifyPreCommits c_checkPreCommit
  c_checkPrepare c_updateExistingPayloads c_sendPrepareRequest c_onPrepareResponse c_onPreCommit c_onCommit c_makeChangeView y_broadcast : kpdb.
Hint Extern 5 (kp TY AnyC _) => (apply kt_of_kc; solve [eauto 3 with kpdb]) : kpdb.
Ltac fixapp := cbn; let s := fresh "s" in let n := fresh "n" in let P := fresh "P" in intros _ s n P; rewrite <- ?app_assoc in *; cbn [app] in *; exact P.

Section WithIcN.
Variable ic : Z -> Z -> M unit.
Hypothesis HicK : forall v t, K2 (ic v t).
Hypothesis Hic3 : ICq ic.
Hypothesis Hict : forall v t, kt (ic v t).
Hypothesis Hic5 : ICl ic.
Let Kccv := K_checkChangeView ic HicK.
Let Kscv := K_sendChangeView ic HicK.
Let Kcab := K_createAndCheckBlock cfg ic HicK.
Let Kadd := K_addTransaction cfg ic HicK.
Let Kopr := K_onPrepareRequest cfg ic HicK.
Let Kocv := K_onChangeView cfg ic HicK.
Let Kd0 := K_dispatch0 cfg ic HicK.
Let Knr0 := K_nestedReceive0 cfg ic HicK.
Let Korm := K_onRecoveryMessage cfg ic HicK.
Let Kdis := K_dispatch cfg ic HicK.
Let Korc := K_OnReceive cfg ic HicK.
Hint Resolve HicK Kccv Kscv Kcab Kadd Kopr Kocv Kd0 Knr0 Korm Kdis Korc : kpdb.
Let Tccv := T_checkChangeView ic Hict.
Let Tscv := T_sendChangeView ic Hict.
Let Tcab := T_createAndCheckBlock cfg ic Hict.
Let Tadd := T_addTransaction cfg ic Hict.
Let Topr := T_onPrepareRequest cfg ic Hict.
Let Tocv := T_onChangeView cfg ic Hict.
Let Td0 := T_dispatch0 cfg ic Hict.
Let Tnr0 := T_nestedReceive0 cfg ic Hict.
Let Torm := T_onRecoveryMessage cfg ic Hict.
Let Tdis := T_dispatch cfg ic Hict.
Let Torc := T_OnReceive cfg ic Hict.
Hint Resolve Hict Tccv Tscv Tcab Tadd Topr Tocv Td0 Tnr0 Torm Tdis Torc : kpdb.
Let Zccv := z_checkChangeView cfg ic HicK Hic3.
Let Zscv := z_sendChangeView cfg ic HicK Hic3.
Let Zcab := z_createAndCheckBlock cfg ic HicK Hic3.
Let Zadd := z_addTransaction cfg ic HicK Hic3.
Hint Resolve Zccv Zscv Zcab Zadd : kzdb.
Let Qocv := q_onChangeView cfg ic HicK Hic3.
Hint Resolve Qocv : kqdb.
Let Iopr := i_onPrepareRequest cfg ic HicK Hic3.
Let Id0 := i_dispatch0 cfg ic HicK Hic3.
Let Inr0 := i_nestedReceive0 cfg ic HicK Hic3.
Let Iorm := i_onRecoveryMessage cfg ic HicK Hic3.
Let Idis := i_dispatch cfg ic HicK Hic3.
Let Iorc := i_OnReceive cfg ic HicK Hic3.
Hint Resolve Iopr Id0 Inr0 Iorm Idis Iorc : kqidb.

(* the ChangeView of checkChangeView ("agreement") and the view change itself happen only while nothing is signed *)
Lemma lz_checkChangeView view : klz (checkChangeView ic view).
Proof.
  intros vs mi g0 s0 HT H0 Hz. unfold checkChangeView. apply x_get.
  destruct (ViewNumber s0 >=? view) eqn:Ev; [apply x_ret; rewrite app_nil_r; apply L5g_unsigned; exact Hz|]. cbv zeta.
  destruct (_ <? _); [apply x_ret; rewrite app_nil_r; apply L5g_unsigned; exact Hz|].
  rewrite Z.geb_leb in Ev. apply Z.leb_gt in Ev.
  assert (Hpos : KS mi g0 -> 0 < view) by (intros Hk; pose proof (H0 Hk) as (_ & _ & A3 & _); lia).
  eapply x_call; [apply (x_conj _ _ _ _ (c_WatchOnly s0 HT) (k3_frame vs mi g0 s0 _ t_WatchOnly H0))|]. intros wo s1 n1 [[T1 _] [I1 N1]]. cbn beta.
  match goal with |- hx _ (bind ?blk _) _ => assert (Hpre : k3 blk) by (destruct wo; k3_go); assert (Hpt : kt blk) by (destruct wo; kn_go leafc) end.
  eapply x_call; [apply (x_conj _ _ _ _ (Hpt s1 T1) (k3_frame vs mi (g0 ++ n1) s1 _ Hpre I1))|]. intros [] s2 n2 [[T2 _] [I2 N2]]. cbn beta. apply x_get.
  eapply x_conseq; [apply (Hic5 view (lastBlockTimestamp s2) vs mi ((g0 ++ n1) ++ n2) s2 T2 I2)|fixapp].
  intros Hk. pose proof Hk as Hk'. apply KS_app in Hk'. destruct Hk' as [Hk1 _]. apply KS_app in Hk1. destruct Hk1 as [Hk0 _].
  split; [exact (Hpos Hk0)|]. intros Hs. rewrite !nsign_app, N1, N2, (Hz Hk0 Hs). reflexivity.
Qed.
Hint Resolve lz_checkChangeView : klzdb.
Lemma lz_sendChangeView r : klz (sendChangeView ic r). Proof. unfold sendChangeView. klz_go. Qed.
Hint Resolve lz_sendChangeView : klzdb.
Lemma lz_createAndCheckBlock : klz (createAndCheckBlock cfg ic). Proof. unfold createAndCheckBlock. klz_go. Qed.
Hint Resolve lz_createAndCheckBlock : klzdb.
Lemma lz_addTransaction t : klz (addTransaction cfg ic t). Proof. unfold addTransaction. klz_go. Qed.
Hint Resolve lz_addTransaction : klzdb.

Lemma lq_onChangeView m : klq (onChangeView cfg ic m).
Proof.
  intros vs mi g0 s0 HT H0 H5. unfold onChangeView. apply x_get. cbv zeta.
  destruct (cv_newview m <=? ViewNumber s0); [apply (klq_of_kc _ (c_onRecoveryRequest cfg m) vs mi g0 s0 HT H0 H5)|].
  eapply x_call; [apply (x_conj _ _ _ _ (c_CommitSent s0 HT) (os_spec CommitPayloads s0))|]. intros cs s1 n1 [[_ C1] (-> & N1 & Hcs)]. cbn beta.
  eapply x_call with (Qx := fun ps s tr => s = s0 /\ nsign tr = 0%nat /\ ncv tr = 0%nat).
  { destruct cs; [apply x_ret; repeat split; reflexivity|].
    eapply x_conseq; [apply (x_conj _ _ _ _ (c_PreCommitSent s0 HT) (os_spec PreCommitPayloads s0))|]. cbn. intros r s n [[_ C] (A & B & _)]. split; [exact A|split; [exact B|apply nocv_ncv; exact C]]. }
  intros ps s2 n2 (-> & N2 & C2). cbn beta.
  assert (I2 : I3g vs mi ((g0 ++ n1) ++ n2) s0) by (apply I3g_pad; [apply I3g_pad; assumption|assumption]).
  assert (V2 : L5g vs mi ((g0 ++ n1) ++ n2)) by (apply L5g_pad; [apply L5g_pad; [assumption|apply nocv_ncv; exact C1]|assumption]).
  destruct (cs || ps) eqn:Ecp.
  { eapply x_conseq; [apply (klq_of_kc _ c_sendRecoveryMessage vs mi ((g0 ++ n1) ++ n2) s0 HT I2 V2)|fixapp]. }
  apply orb_false_iff in Ecp. destruct Ecp as [-> _].
  assert (Hz : Z0 vs mi ((g0 ++ n1) ++ n2)).
  { intros Hk Hs. pose proof Hk as Hk'. apply KS_app in Hk'. destruct Hk' as [Hk1 _]. apply KS_app in Hk1. destruct Hk1 as [Hk0 Hkn1].
    rewrite !nsign_app, N1, N2, !Nat.add_0_r. apply (unsigned_when_no_own_commit vs mi g0 s0 H0 Hk0); [|exact Hs].
    specialize (Hcs mi Hkn1). destruct (slot (CommitPayloads s0) (MyIndex s0)); [discriminate Hcs|reflexivity]. }
  match goal with |- hx _ ?prog _ => assert (Hrest : klz prog) by klz_go end.
  eapply x_conseq; [apply (Hrest vs mi ((g0 ++ n1) ++ n2) s0 HT I2 Hz)|fixapp].
Qed.
Hint Resolve lq_onChangeView : klqdb.

Lemma l_onPrepareRequest m : kl (onPrepareRequest cfg ic m).
Proof.
  intros vs mi g0 s0 J0 HT H0 H5. unfold onPrepareRequest.
  eapply x_call; [apply rsor_spec|]. intros rs s1 n1 (-> & -> & Hrs). cbn beta. cbn [app]. destruct rs.
  { assert (Hl : kc (_ <- ViewChanging ;; ret tt)) by kc_go. eapply x_conseq; [apply (klq_of_kc _ Hl vs mi g0 s0 HT H0 H5)|fixapp]. }
  specialize (Hrs eq_refl).
  assert (Hh : header s0 = None).
  { destruct (header s0) as [b|] eqn:E; [|reflexivity]. destruct (i_h2 _ J0 b E) as [r Hr]. rewrite Hrs in Hr. discriminate Hr. }
  assert (Hz : Z0 vs mi g0) by (intros Hk Hs; apply (unsigned_when_no_header vs mi g0 s0 H0 Hk Hh Hs)).
  match goal with |- hx _ ?prog _ => assert (Hrest : klz prog) end.
  { klz_go. all: try (destruct (p_body m) as [[]|]; klz_go). }
  eapply x_conseq; [apply (Hrest vs mi g0 s0 HT H0 Hz)|fixapp].
Qed.
Hint Resolve l_onPrepareRequest : kldb.

Lemma l_receive_common d m : (forall x, K2 (d x)) -> (forall x, kqi (d x)) -> (forall x, kt (d x)) -> (forall x, kl (d x)) -> kl (receive_common d m).
Proof. intros HdK Hdq Hdt Hd. unfold receive_common. kl_go. Qed.
Lemma l_dispatch0 m : kl (dispatch0 cfg ic m). Proof. unfold dispatch0. destruct (p_type m) eqn:Ty; kl_go. Qed.
Hint Resolve l_dispatch0 : kldb.
Lemma l_nestedReceive0 m : kl (nestedReceive0 cfg ic m).
Proof.
  unfold nestedReceive0. apply kl_bind; [solveK2|solvekqi|solvekt|kl_leaf|intros _].
  apply l_receive_common; [intros x; apply Kd0|intros x; apply Id0|intros x; apply Td0|intros x; apply l_dispatch0].
Qed.
Hint Resolve l_nestedReceive0 : kldb.
Lemma l_onRecoveryMessage m : kl (onRecoveryMessage cfg ic m).
Proof. unfold onRecoveryMessage. destruct (p_body m); [apply kl_panic|]. cbv zeta. kl_go. Qed.
Hint Resolve l_onRecoveryMessage : kldb.
Lemma l_dispatch m : kl (dispatch cfg ic m). Proof. unfold dispatch. destruct (p_type m) eqn:Ty; kl_go. Qed.
Lemma l_OnReceive m : kl (OnReceive cfg ic m).
Proof. unfold OnReceive. apply l_receive_common; [intros x; apply Kdis|intros x; apply Idis|intros x; apply Tdis|intros x; apply l_dispatch]. Qed.
Hint Resolve l_OnReceive : kldb.
Lemma l_replay_map n : forall entries, kl (replay_map cfg ic n entries).
Proof.
  pose proof (K_replay_map cfg ic HicK) as HKr. pose proof (i_replay_map cfg ic HicK Hic3) as Hqr. pose proof (T_replay_map cfg ic Hict) as Htr.
  induction n as [|n IH]; intros entries; destruct entries as [|e entries]; cbn [replay_map]; try apply kl_ret. kl_go.
Qed.
End WithIcN.
End RecN.

Section ApiN.
Variable cfg : config.
Hint Resolve h_WatchOnly h_RSOR h_own_slot h_ResponseSent h_PreCommitSent h_CommitSent h_ViewChanging h_NotAccepting h_subscribe h_unsubscribe
  h_StopTxFlow h_changeTimer h_getTimestamp h_MakePreHeader h_CreatePreBlock h_broadcast h_rtt h_makeRecoveryMessage h_sendRecoveryMessage
  h_processMissingTx h_sendRecoveryRequest h_makeChangeView h_makePreCommit h_sendPreCommit h_verifyPreCommits h_extendTimer h_GetPrimaryIndex
  h_onRecoveryRequest h_cache_addMessage h_ask_recv h_MakeHeader h_CreateBlock h_makeCommit h_sendCommit h_verifyCommits h_checkCommit
  h_checkPreCommit h_checkPrepare h_onCommit h_onPreCommit h_updateExistingPayloads : kpdb.
Hint Extern 4 (kp Inv2 G2 _) => (apply K2_of_k2; intros; solve [eauto 3 with kpdb]) : kpdb.
Hint Resolve t_WatchOnly t_RSOR t_own_slot t_ResponseSent t_PreCommitSent t_CommitSent t_ViewChanging t_NotAccepting t_subscribe t_unsubscribe
  t_StopTxFlow t_changeTimer t_getTimestamp t_Fill t_MakePreHeader t_CreatePreBlock t_broadcast t_makePrepareRequest t_rtt
  t_makeRecoveryMessage t_sendRecoveryMessage t_processMissingTx t_sendRecoveryRequest t_makeChangeView t_makePrepareResponse
  t_sendPrepareResponse t_makePreCommit t_sendPreCommit t_verifyPreCommits t_extendTimer t_GetPrimaryIndex t_onRecoveryRequest
  t_cache_addMessage t_ask_recv t_MakeHeader t_CreateBlock t_checkCommit t_verifyCommits t_updateExistingPayloads t_onCommit : kpdb.
Hint Resolve q_sendCommit q_checkPreCommit q_checkPrepare q_sendPrepareRequest q_onPrepareResponse q_onPreCommit : kqdb.
Hint Resolve K_onPrepareResponse : kpdb.
Hint Resolve c_WatchOnly c_RSOR c_own_slot c_ResponseSent c_PreCommitSent c_CommitSent c_ViewChanging c_NotAccepting c_subscribe c_unsubscribe
  c_StopTxFlow c_changeTimer c_getTimestamp c_Fill c_MakePreHeader c_CreatePreBlock c_makePrepareRequest c_rtt c_sendRecoveryMessage
  c_processMissingTx c_sendRecoveryRequest c_sendPrepareResponse c_extendTimer c_GetPrimaryIndex c_onRecoveryRequest c_cache_addMessage
  c_ask_recv c_MakeHeader c_CreateBlock c_checkCommit c_sendPreCommit c_sendCommit c_verifyCommits c_verifyPreCommits c_checkPreCommit
  c_checkPrepare c_updateExistingPayloads c_sendPrepareRequest c_onPrepareResponse c_onPreCommit c_onCommit c_makeChangeView y_broadcast : kpdb.
Hint Extern 5 (kp TY AnyC _) => (apply kt_of_kc; solve [eauto 3 with kpdb]) : kpdb.

Lemma l_ic_rest ic view : (forall v t, K2 (ic v t)) -> ICq ic -> (forall v t, kt (ic v t)) -> ICl ic -> kl (ic_rest cfg ic view).
Proof.
  intros HicK Hic Hict Hic5. pose proof (i_replay_map cfg ic HicK Hic) as Hr. pose proof (K_replay_map cfg ic HicK) as HKr.
  pose proof (T_replay_map cfg ic Hict) as Htr. pose proof (l_replay_map cfg ic HicK Hic Hict Hic5) as Hlr.
  unfold ic_rest. kl_go.
Qed.
Lemma l_ic_body ic : (forall v t, K2 (ic v t)) -> ICq ic -> (forall v t, kt (ic v t)) -> ICl ic -> ICl (initializeConsensus_body cfg ic).
Proof.
  intros HicK Hic Hict Hic5 view ts vs mi g0 s0 HT H0 Hv. rewrite ic_body_unfold.
  eapply x_call; [apply (x_conj _ _ _ _ (x_conj _ _ _ _ (reset_spec cfg view ts s0) (c_reset cfg view ts s0 HT)) (reset_q cfg view ts vs mi g0 s0 H0 Hv))|].
  intros [] s1 n1 [[(J1 & _) (T1 & _)] (I1 & N1)]. cbn beta.
  assert (V1 : L5g vs mi (g0 ++ n1)).
  { apply L5g_unsigned. intros Hk Hs. apply KS_app in Hk. destruct Hk as [Hk0 _]. destruct (Hv Hk0) as [_ Hz]. rewrite nsign_app, N1, (Hz Hs). reflexivity. }
  eapply x_conseq; [apply (l_ic_rest ic view HicK Hic Hict Hic5 vs mi (g0 ++ n1) s1 J1 T1 I1 V1)|]. cbn. intros _ s n P. rewrite app_assoc. exact P.
Qed.
Lemma l_initializeConsensus fuel : ICl (initializeConsensus cfg fuel).
Proof.
  induction fuel as [|f IH]; [intros v t vs mi g0 s0 _ _ _; apply x_oof|]. cbn [initializeConsensus].
  apply l_ic_body; [intros v t; apply K2_initializeConsensus|apply q_initializeConsensus|intros v t; apply T_initializeConsensus|exact IH].
Qed.
Lemma l_init : ICl (init cfg). Proof. apply l_initializeConsensus. Qed.
Let HK := fun v t => K_init cfg v t.
Let HQ := q_init cfg.
Let HT := fun v t => T_init cfg v t.
Let HL := l_init.

Definition Fresh5 (s : nstate) (tr : tr_t) : Prop := forall mi, L5g (Validators s) mi tr.
Lemma L5g_Fresh5 s tr : (forall mi, exists vs, I3g vs mi tr s /\ L5g vs mi tr) -> Fresh5 s tr.
Proof.
  intros H mi Hk Hs. destruct (H mi) as (vs & H3 & H5). pose proof (H3 Hk) as HI. assert (E : Validators s = vs) by apply HI.
  rewrite E in Hs. apply (H5 Hk Hs).
Qed.

Lemma init_0l ts s0 : TY s0 -> hx s0 (init cfg 0 ts) (fun _ s tr => Fresh5 s tr).
Proof.
  intros HT0. rewrite init_unfold. pose proof (q_initializeConsensus cfg 257) as Hic. pose proof (K2_initializeConsensus cfg 257) as HicK.
  pose proof (T_initializeConsensus cfg 257) as Hict. pose proof (l_initializeConsensus 257) as Hic5.
  revert Hic HicK Hict Hic5. generalize (initializeConsensus cfg 257) as ic. intros ic Hic HicK Hict Hic5. rewrite ic_body_unfold.
  eapply x_call; [apply (x_conj _ _ _ _ (x_conj _ _ _ _ (reset_spec cfg 0 ts s0) (c_reset cfg 0 ts s0 HT0)) (reset_0 cfg ts s0))|].
  intros [] s1 n1 [[(J1 & _) (T1 & _)] (N1 & P1)]. cbn beta.
  assert (HF : hx s1 (ic_rest cfg ic 0) (fun _ s tr => forall mi, I3g (Validators s1) mi (n1 ++ tr) s /\ L5g (Validators s1) mi (n1 ++ tr))).
  { apply (x_forall 0 s1 _ (fun mi _ s tr => I3g (Validators s1) mi (n1 ++ tr) s /\ L5g (Validators s1) mi (n1 ++ tr))). intros mi.
    assert (I1 : I3g (Validators s1) mi n1 s1) by (intros Hk; rewrite N1; apply (P1 mi _ Hk)).
    assert (V1 : L5g (Validators s1) mi n1) by (apply L5g_unsigned; intros _ _; exact N1).
    apply (x_conj _ _ _ _ (i_ic_rest cfg ic 0 HicK Hic (Validators s1) mi n1 s1 J1 I1) (l_ic_rest ic 0 HicK Hic Hict Hic5 (Validators s1) mi n1 s1 J1 T1 I1 V1)). }
  eapply x_conseq; [apply HF|]. cbn. intros _ s n P. apply L5g_Fresh5. intros mi. exists (Validators s1). apply P.
Qed.

Lemma fresh_Start5 ts s0 : TY s0 -> hx s0 (Start cfg ts) (fun _ s tr => Fresh5 s tr).
Proof.
  intros HT0. unfold Start. apply x_modify.
  match goal with |- hx ?st _ _ => assert (HT1 : TY st) by (destruct HT0; split; assumption) end.
  eapply x_call; [apply (x_conj _ _ _ _ (x_conj _ _ _ _ (init_0 cfg ts _) (T_init cfg 0 ts _ HT1)) (init_0l ts _ HT1))|]. intros [] s1 n1 [[[J1 F1] [T1 _]] F5]. cbn beta.
  match goal with |- hx _ ?prog _ => assert (Hq : kq prog) by kq_go; assert (Hv : klq prog) by klq_go end.
  eapply x_conseq; [apply (x_forall 0 s1 _ (fun mi _ s tr => I3g (Validators s1) mi (n1 ++ tr) s /\ L5g (Validators s1) mi (n1 ++ tr)))|].
  - intros mi. apply (x_conj _ _ _ _ (Hq (Validators s1) mi n1 s1 (Fresh3_I3g _ _ _ F1)) (Hv (Validators s1) mi n1 s1 T1 (Fresh3_I3g _ _ _ F1) (F5 mi))).
  - cbn. intros _ s n P. apply L5g_Fresh5. intros mi. exists (Validators s1). apply P.
Qed.

Lemma klq_os_commit {B} (f : bool -> M B) : klq (f true) -> klz (f false) -> klq (bind CommitSent f).
Proof.
  intros Ht Hf vs mi g0 s0 HT0 H0 H5. eapply x_call; [apply (x_conj _ _ _ _ (c_CommitSent s0 HT0) (os_spec CommitPayloads s0))|].
  intros cs s1 n1 [[_ C1] (-> & N1 & Hcs)]. cbn beta.
  assert (I1 : I3g vs mi (g0 ++ n1) s0) by (apply I3g_pad; assumption).
  assert (V1 : L5g vs mi (g0 ++ n1)) by (apply L5g_pad; [assumption|apply nocv_ncv; exact C1]).
  destruct cs.
  - eapply x_conseq; [apply (Ht vs mi (g0 ++ n1) s0 HT0 I1 V1)|]. cbn. intros b s n P. rewrite app_assoc. exact P.
  - eapply x_conseq; [apply (Hf vs mi (g0 ++ n1) s0 HT0 I1)|].
    + intros Hk Hs. apply KS_app in Hk. destruct Hk as [Hk0 Hk1]. rewrite nsign_app, N1, Nat.add_0_r.
      apply (unsigned_when_no_own_commit vs mi g0 s0 H0 Hk0); [|exact Hs].
      specialize (Hcs mi Hk1). destruct (slot (CommitPayloads s0) (MyIndex s0)); [discriminate Hcs|reflexivity].
    + cbn. intros b s n P. rewrite app_assoc. exact P.
Qed.
Ltac lvl0 := apply kq_of_k3; solvek3.
Ltac lvl0t := apply kt_of_kc; solvekc.
Ltac lvl0l := apply klq_of_kc; solvekc.
Lemma lq_OnTransaction t : klq (OnTransaction cfg t).
Proof.
  assert (Ha : forall t, klz (addTransaction cfg (init cfg) t)) by (exact (lz_addTransaction cfg (init cfg) HK HQ HT HL)).
  assert (Haz : forall t, kz (addTransaction cfg (init cfg) t)) by (exact (z_addTransaction cfg (init cfg) HK HQ)).
  assert (Hat : forall t, kt (addTransaction cfg (init cfg) t)) by (exact (T_addTransaction cfg (init cfg) HT)).
  unfold OnTransaction. apply klq_get_bind; intro s. destruct (negb (IsBackup s)); [apply klq_ret|].
  apply klq_bind; [lvl0|lvl0t|lvl0l|intro na]. destruct na; [apply klq_ret|].
  apply klq_bind; [lvl0|lvl0t|lvl0l|intro rs]. destruct (negb rs); [apply klq_ret|].
  apply klq_bind; [lvl0|lvl0t|lvl0l|intro x1]. destruct x1; [apply klq_ret|].
  apply klq_bind; [lvl0|lvl0t|lvl0l|intro x2]. destruct x2; [apply klq_ret|].
  apply klq_os_commit; [cbv beta iota; apply klq_ret|cbv beta iota; klz_go].
Qed.
Lemma lq_onTimeout h v f : klq (onTimeout cfg h v f).
Proof.
  assert (Hs : forall r, klz (sendChangeView (init cfg) r)) by (exact (lz_sendChangeView cfg (init cfg) HK HQ HT HL)).
  assert (Hsz : forall r, kz (sendChangeView (init cfg) r)) by (exact (z_sendChangeView cfg (init cfg) HK HQ)).
  assert (Hst : forall r, kt (sendChangeView (init cfg) r)) by (exact (T_sendChangeView (init cfg) HT)).
  unfold onTimeout. apply klq_bind; [lvl0|lvl0t|lvl0l|intro wo]. apply klq_get_bind; intro s.
  destruct (wo || blockProcessed s); [apply klq_ret|]. destruct (_ || _); [apply klq_ret|].
  apply klq_bind; [destruct (IsPrimary s); [lvl0|apply kq_ret]|destruct (IsPrimary s); [lvl0t|apply kp_ret]|destruct (IsPrimary s); [lvl0l|apply klq_ret]|intro rs].
  destruct (IsPrimary s && negb rs); [apply klq_of_kc, c_sendPrepareRequest|].
  destruct (_ || _); [|apply klq_ret].
  apply klq_os_commit; [cbv beta iota; cbn [orb]; klq_go|cbv beta iota; cbn [orb]; klz_go].
Qed.
Lemma lq_OnNewTransaction : klq (OnNewTransaction cfg).
Proof. unfold OnNewTransaction. pose proof (q_onTimeout cfg) as Ht. pose proof lq_onTimeout as Hv. pose proof (T_onTimeout cfg) as Htt. klq_go. Qed.

Lemma l_run_event e : continues e -> kl (run_event cfg e).
Proof.
  destruct e; cbn [run_event continues]; intros Hc; try contradiction.
  - apply (l_OnReceive cfg (init cfg) HK HQ HT HL). - apply kl_of_klq, lq_onTimeout. - apply kl_of_klq, lq_OnTransaction. - apply kl_of_klq, lq_OnNewTransaction.
Qed.

Theorem epoch_inv5 st g : Epoch cfg st g -> Fresh5 st g.
Proof.
  induction 1 as [st ts sc st' tr HR Hs|st ts sc st' tr HR Hs|st g ev sc st' tr HE IH Hc Hs].
  - apply (step_hx cfg st (EStart ts) sc st' tr (fun s n => Fresh5 s n) (fresh_Start5 ts st (typed_reach cfg st HR)) Hs).
  - apply (step_hx cfg st (EReset ts) sc st' tr (fun s n => Fresh5 s n) (init_0l ts st (typed_reach cfg st HR)) Hs).
  - apply L5g_Fresh5. intros mi. exists (Validators st).
    apply (step_hx cfg st ev sc st' tr (fun s n => I3g (Validators st) mi (g ++ n) s /\ L5g (Validators st) mi (g ++ n))); [|exact Hs].
    pose proof (epoch_reach cfg st g HE) as HR.
    pose proof (proposal_reach cfg st HR) as J. pose proof (typed_reach cfg st HR) as HTy.
    pose proof (Fresh3_I3g _ _ mi (epoch_inv cfg st g HE)) as H3.
    apply (x_conj _ _ _ _ (i_run_event cfg ev Hc (Validators st) mi g st J H3) (l_run_event ev Hc (Validators st) mi g st J HTy H3 (IH mi))).
Qed.

(* in every history of an epoch, every broadcast of a ChangeView comes before the first signature request *)
Theorem change_views_precede_the_signature st g mi g1 s p g2 :
  Epoch cfg st g -> KS mi g -> zlen (Validators st) <= 65536 ->
  g = g1 ++ (s, CBroadcast p) :: g2 -> p_type p = ChangeViewT -> nsign g1 = 0%nat.
Proof.
  intros HE Hk Hs E Ty. apply (epoch_inv5 st g HE mi Hk Hs g1 (s, CBroadcast p) g2 E). cbn. rewrite Ty. reflexivity.
Qed.
(* ... so a call made after the node has signed broadcasts no ChangeView *)
Theorem no_change_view_after_the_signature st g ev sc st' tr mi s p :
  Epoch cfg st g -> continues ev -> step cfg st ev sc = Ok (st', tr) -> KS mi (g ++ tr) -> zlen (Validators st) <= 65536 -> nsign g <> 0%nat ->
  In (s, CBroadcast p) tr -> p_type p <> ChangeViewT.
Proof.
  intros HE Hc Hs Hk Hsm Hn Hin Ty.
  assert (HE' : Epoch cfg st' (g ++ tr)) by (eapply EpochStep; eauto).
  assert (Hsm' : zlen (Validators st') <= 65536) by (rewrite (epoch_validators cfg st g ev sc st' tr mi HE Hc Hs Hk); exact Hsm).
  apply in_split in Hin. destruct Hin as (t1 & t2 & ->).
  pose proof (change_views_precede_the_signature st' _ mi (g ++ t1) s p t2 HE' Hk Hsm' ltac:(rewrite <- app_assoc; reflexivity) Ty) as H0.
  rewrite nsign_app in H0. lia.
Qed.
End ApiN.

(* a boolean check of a recorded history against the hypotheses of the theorem, for the non-vacuity example: an epoch with one
   signature request whose trace contains a ChangeView broadcast *)
Definition epoch_cv_okb (cfg : config) (h : list (event * list call)) (mi : Z) : bool :=
  match h with
  | (EStart ts, sc) :: r =>
      match step cfg fresh_state (EStart ts) sc with
      | Ok (s1, tr1) =>
          match replay cfg s1 r with
          | Some (sf, l) =>
              let g := tr1 ++ concat (map snd l) in
              forallb continuesb (map fst r) && KSb mi g && (zlen (Validators sf) <=? 65536) && Nat.eqb (nsign g) 1 &&
              existsb (fun sc => is_cv (snd sc)) g
          | None => false end
      | _ => false end
  | _ => false end.
Lemma epoch_cv_okb_sound cfg h mi : epoch_cv_okb cfg h mi = true ->
  exists st g g1 s p g2, Epoch cfg st g /\ KS mi g /\ zlen (Validators st) <= 65536 /\ nsign g = 1%nat /\
                         g = g1 ++ (s, CBroadcast p) :: g2 /\ p_type p = ChangeViewT.
Proof.
  unfold epoch_cv_okb. destruct h as [|[ev sc] r]; [discriminate|]. destruct ev; try discriminate.
  destruct (step cfg fresh_state (EStart ts) sc) as [[s1 tr1]| | | |] eqn:Es; try discriminate.
  destruct (replay cfg s1 r) as [[sf l]|] eqn:Er; [|discriminate]. cbv zeta. intros H.
  apply andb_true_iff in H. destruct H as [H H5]. apply andb_true_iff in H. destruct H as [H H4]. apply andb_true_iff in H. destruct H as [H H3].
  apply andb_true_iff in H. destruct H as [H1 H2].
  apply existsb_exists in H5. destruct H5 as ([s c] & Hin & Hc). cbn in Hc. apply in_split in Hin. destruct Hin as (g1 & g2 & Eg).
  destruct c; try discriminate Hc.
  exists sf, (tr1 ++ concat (map snd l)), g1, s, p, g2. split; [|split; [|split; [|split; [|split]]]].
  - apply (replay_epoch cfg r s1 sf l tr1); [eapply EpochStart; [apply Reach0|exact Es]|exact H1|exact Er].
  - apply KSb_sound. exact H2.
  - apply Z.leb_le in H3. exact H3.
  - apply Nat.eqb_eq in H4. exact H4.
  - exact Eg.
  - cbn in Hc. destruct (p_type p); try discriminate Hc. reflexivity.
Qed.
