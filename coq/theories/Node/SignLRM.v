(* C03: "every retransmission of it ... inside a recovery message is identical to the original", for the answers to
   RecoveryRequests: in every history of an epoch, once the node has signed, every RecoveryRequest it is given is answered
   with a recovery message of the node's height and of the signed commit's view that carries the signed commit whole. *)
From Coq Require Import ZArith List.
From DbftV Require Import SignLApi P09b.
Open Scope Z_scope.

Section RM.
Variable cfg : config.

Theorem recovery_answer_after_the_signature_carries_the_signed_commit st g mi msg :
  Epoch cfg st g -> KS mi g -> zlen (Validators st) <= 65536 -> nsign g <> 0%nat -> 0 <= mi ->
  exists c, signed_commit g = Some c /\
    hx st (onRecoveryRequest cfg msg) (fun _ s tr =>
      Val tr -> s = st /\
      exists sb p, In (sb, CBroadcast p) tr /\ p_type p = RecoveryMessageT /\
        p_height p = BlockIndex st /\ p_view p = p_view c /\ p_idx p = u16 mi /\
        (forall q, In q (to_p0 c) -> carries p q)).
Proof.
  intros HE Hk Hs Hn H0.
  destruct (signed_commit_is_kept cfg st g mi HE Hk Hs Hn) as (c & b & C0 & C1 & C2 & C3 & C4 & _).
  exists c. split; [exact C0|].
  rewrite <- C2 in C1, H0.
  eapply x_conseq; [apply (committed_node_answers_recovery_requests_in_its_epoch cfg msg st c H0 C1)|].
  cbn beta. intros r s tr Hp Hv. destruct (Hp Hv) as (E & sb & p & A1 & A2 & A3 & A4 & A5 & A6).
  split; [exact E|]. exists sb, p. rewrite C4, <- C2. repeat split; assumption.
Qed.
End RM.
