(* C16, node-level clauses of the dynamic block time extension (node model), for EVERY state meeting the conditions:
   - an idle backup at view 0 whose timer fires while the pool is empty does not ask for a view change: it subscribes for
     transactions and re-arms its timer (no ChangeView, no RecoveryRequest, view unchanged);
   - a new-transaction notification at a subscribed primary that has not proposed yet makes it propose in that call. *)
From DbftV Require Export P03.

Definition PoolEmpty (tr : tr_t) : Prop := forall s l, In (s, CGetVerified l) tr -> l = [].
Definition NoRR (tr : tr_t) : Prop := forall s p, In (s, CBroadcast p) tr -> p_type p <> RecoveryRequestT.

Section P16.
Variable cfg : config.

Theorem idle_backup_waits_instead_of_changing_view h v s0 :
  cfg_dyn cfg = true -> IsBackup s0 = true -> ViewNumber s0 = 0 -> blockProcessed s0 = false ->
  h = BlockIndex s0 -> v = ViewNumber s0 -> txSubscriptionOn s0 = false ->
  slot (CommitPayloads s0) (MyIndex s0) = None -> slot (PreCommitPayloads s0) (MyIndex s0) = None ->
  hx s0 (OnTimeout cfg h v) (fun _ s tr =>
    Val tr -> PoolEmpty tr ->
    ViewNumber s = ViewNumber s0 /\ txSubscriptionOn s = true /\ (forall s' p, ~ In (s', CBroadcast p) tr) /\ HasReset tr /\ In CSubscribe (map snd tr)).
Proof.
  intros Hd Hb Hv0 Hbp -> -> Hsub Hc Hpc.
  assert (H0 : 0 <= MyIndex s0 /\ IsPrimary s0 = false).
  { unfold IsBackup in Hb. apply andb_true_iff in Hb. destruct Hb as [A B]. rewrite Z.geb_leb in A. apply Z.leb_le in A. apply negb_true_iff in B. auto. }
  destruct H0 as [H0 Hnp].
  unfold OnTimeout, onTimeout.
  apply (x_probe _ _ _ _ _ (d_WatchOnly s0 H0) (ow_WatchOnly s0)). intros wo n1 Hw O1. apply x_get.
  destruct wo. { cbn [orb]. apply x_ret. intros Hv _. rewrite app_nil_r in Hv. discriminate (Hw Hv). }
  rewrite Hbp. cbn [orb]. rewrite !Z.eqb_refl. cbn [negb orb]. rewrite Hnp. cbn [andb]. apply x_ret_bind. cbn [andb orb]. rewrite Hb.
  apply (x_probe _ _ _ _ _ (d_own_slot CommitPayloads s0 H0) (ow_own_slot CommitPayloads s0)). intros cs n2 Hcs O2.
  eapply x_call with (Qx := fun ps s tr => s = s0 /\ OnlyWo tr /\ (cs = false -> Val tr -> ps = false)).
  { destruct cs.
    - apply x_ret. split; [reflexivity|split; [constructor|discriminate]].
    - eapply x_conseq; [apply (x_conj _ _ _ _ (d_own_slot PreCommitPayloads s0 H0) (ow_own_slot PreCommitPayloads s0))|]. cbn.
      intros ps s n [[-> Hps] [_ Ho]]. split; [reflexivity|split; [exact Ho|]]. intros _ Hvn. rewrite (Hps Hvn), Hpc. reflexivity. }
  intros ps s1 n3 (-> & O3 & Hps). cbn beta.
  destruct (cs || ps) eqn:Ecp.
  { (* unreachable: the node has not committed *)
    eapply x_conseq with (Q' := fun _ _ _ => True).
    { apply x_wb; [apply wb_st, e_sendRecoveryMessage|]. intros [] s2 n4. apply x_get. apply (wb_st _ (e_changeTimer _) s2). }
    cbn. intros _ s n _ Hv _. exfalso. apply Val_app in Hv. destruct Hv as [_ Hv]. apply Val_app in Hv. destruct Hv as [V2 Hv]. apply Val_app in Hv. destruct Hv as [V3 _].
    rewrite (Hcs V2), Hc in Ecp. cbn in Ecp. rewrite (Hps ltac:(rewrite (Hcs V2), Hc; reflexivity) V3) in Ecp. discriminate Ecp. }
  apply x_get. rewrite Hv0. cbn [Z.eqb andb]. rewrite Hd, Hb. cbn [andb]. rewrite Hsub. cbn [negb].
  unfold subscribeForTransactions, changeTimer. xs.
  all: repeat match goal with
       | H : match ?c with CGetVerified _ => _ | _ => _ end = Some _ |- _ => apply sel_GetVerified in H; subst c
       end.
  - (* pool empty: subscribe and re-arm *)
    assert (E2 : c0 = CSubscribe) by (destruct c0; try discriminate Hc1; reflexivity). subst c0.
    assert (E3 : exists hh vv dd, c1 = CTimerReset hh vv dd) by (destruct c1; try discriminate Hc2; eauto). destruct E3 as (hh & vv & dd & ->).
    intros Hv Hp. split; [cbn; congruence|split; [reflexivity|split; [|split]]].
    + intros s' p Hin.
      assert (Hw' : forall n, OnlyWo n -> ~ In (s', CBroadcast p) n).
      { intros n On Hi. unfold OnlyWo in On. rewrite Forall_forall in On. destruct (On _ Hi) as [b Eb]. discriminate Eb. }
      apply in_app_or in Hin. destruct Hin as [Hin|Hin]; [exact (Hw' _ O1 Hin)|].
      apply in_app_or in Hin. destruct Hin as [Hin|Hin]; [exact (Hw' _ O2 Hin)|].
      apply in_app_or in Hin. destruct Hin as [Hin|Hin]; [exact (Hw' _ O3 Hin)|].
      cbn in Hin. destruct Hin as [Eq|[Eq|[Eq|[]]]]; discriminate Eq.
    + exists (s0 <| txSubscriptionOn := true |>), hh, vv, dd. repeat (apply in_or_app; right). cbn. auto 10.
    + rewrite !map_app. repeat (apply in_or_app; right). cbn. auto 10.
  - (* the pool was not empty: outside the hypothesis *)
    eapply x_conseq with (Q' := fun _ _ _ => True).
    { apply wb_J. apply (j_sendChangeView (init cfg) (j_init cfg)). }
    cbn. intros _ s n _ _ Hp. exfalso.
    match goal with E : (zlen ?txx =? 0) = false |- _ => assert (txx = []) by (eapply Hp; repeat (apply in_or_app; right); left; reflexivity); subst txx; discriminate E end.
Qed.

Definition TagsCurrent (tr : tr_t) : Prop :=
  (forall s x, In (s, CTimerHeight x) tr -> x = BlockIndex s) /\ (forall s x, In (s, CTimerView x) tr -> x = ViewNumber s).
Definition Proposed (tr : tr_t) : Prop := exists s p, In (s, CBroadcast p) tr /\ p_type p = PrepareRequestT.
Lemma Proposed_r a b : Proposed b -> Proposed (a ++ b). Proof. intros (s & p & H & T). exists s, p. split; [apply in_or_app; auto|exact T]. Qed.

Lemma sel_TimerHeight c x : match c with CTimerHeight y => Some y | _ => None end = Some x -> c = CTimerHeight x.
Proof. destruct c; intros [=]; subst; auto. Qed.
Lemma sel_TimerView c x : match c with CTimerView y => Some y | _ => None end = Some x -> c = CTimerView x.
Proof. destruct c; intros [=]; subst; auto. Qed.

Lemma propose_when_forced s0 : 0 <= MyIndex s0 ->
  hx s0 (sendPrepareRequest cfg true) (fun _ _ tr => Proposed tr).
Proof.
  intros H0. unfold sendPrepareRequest.
  eapply x_call with (Qx := fun r s tr => exists m, r = Some m /\ p_type m = PrepareRequestT).
  { unfold makePrepareRequest, Fill, getTimestamp, ask_now. xs. all: try (eexists; split; reflexivity).
    all: exfalso; first [ match goal with H : (cfg_dyn cfg && negb true && _) = true |- _ => cbn [negb] in H; rewrite andb_false_r in H; cbn in H; discriminate H end
                        | match goal with H : negb true = true |- _ => discriminate H end ]. }
  intros r s1 n1 (m & -> & Ty). cbn beta. apply x_ret_bind.
  unfold unsubscribeFromTransactions at 1. apply x_modify. apply x_get. apply x_tset. intros l _ _. apply x_modify.
  unfold broadcast at 1. apply x_assoc. apply x_get. unfold ask_unit at 1. apply x_ask. intros [] c Hc. apply sel_Broadcast in Hc. subst c.
  eapply x_conseq with (Q' := fun _ _ _ => True).
  { apply x_wb; [apply wb_st, e_updateExistingPayloads|]. intros [] s2 n2. unfold ask_now at 1. apply x_ask. intros t c Hc. apply x_modify. apply x_get. cbv zeta.
    apply x_wb; [apply wb_st, e_changeTimer|]. intros [] s3 n3. apply (wb_st _ (e_checkPrepare cfg)). }
  cbn. intros _ _ n _. apply Proposed_r. eexists _, _. split; [left; reflexivity|]. rewrite p_type_set_idx. exact Ty.
Qed.

Theorem notification_makes_the_waiting_primary_propose s0 :
  txSubscriptionOn s0 = true -> IsPrimary s0 = true -> 0 <= MyIndex s0 -> 0 <= PrimaryIndex s0 -> blockProcessed s0 = false ->
  slot (PreparationPayloads s0) (PrimaryIndex s0) = None ->
  hx s0 (OnNewTransaction cfg) (fun _ _ tr => Val tr -> TagsCurrent tr -> Proposed tr).
Proof.
  intros Hsub Hp H0 Hpi Hbp Hreq. unfold OnNewTransaction. apply x_get. rewrite Hsub. cbn [negb].
  apply x_ask. intros h c Hc. apply sel_TimerHeight in Hc. subst c. apply x_ask. intros v c Hc. apply sel_TimerView in Hc. subst c.
  unfold onTimeout.
  apply (x_probe _ _ _ _ _ (d_WatchOnly s0 H0) (ow_WatchOnly s0)). intros wo n1 Hw O1. apply x_get.
  destruct wo. { cbn [orb]. apply x_ret. intros Hv _. exfalso. apply Val_cons in Hv. destruct Hv as [_ Hv]. apply Val_cons in Hv. destruct Hv as [_ Hv]. rewrite app_nil_r in Hv. discriminate (Hw Hv). }
  rewrite Hbp. cbn [orb].
  destruct (negb (h =? BlockIndex s0) || negb (v =? ViewNumber s0)) eqn:Eep.
  { apply x_ret. intros _ [T1 T2]. exfalso. pose proof (T1 s0 h (or_introl eq_refl)) as E1. pose proof (T2 s0 v (or_intror (or_introl eq_refl))) as E2.
    subst h v. rewrite !Z.eqb_refl in Eep. discriminate Eep. }
  rewrite Hp. cbn [andb].
  eapply x_call; [apply d_RSOR|]. intros rs s1 n2 (-> & -> & Hrs). rewrite (Hrs Hpi), Hreq. cbn [isSome negb andb].
  rewrite orb_true_r.
  eapply x_conseq; [apply (propose_when_forced s0 H0)|]. cbn. intros _ _ n P _ _.
  apply (Proposed_r [_; _]). apply Proposed_r. exact P.
Qed.
End P16.
