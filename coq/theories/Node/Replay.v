(* Replaying a recorded history (API calls with the callback answers the implementation received) through the model. *)
From DbftV Require Export Gates.

Fixpoint replay (cfg : config) (s : nstate) (h : list (event * list call)) : option (nstate * list (nstate * event * list call * tr_t)) :=
  match h with
  | [] => Some (s, [])
  | (ev, sc) :: r =>
      match step cfg s ev sc with
      | Ok (s', tr) => match replay cfg s' r with Some (sf, l) => Some (sf, (s, ev, sc, tr) :: l) | None => None end
      | _ => None
      end
  end.

Lemma replay_reach cfg : forall h s sf l, Reach cfg s -> replay cfg s h = Some (sf, l) ->
  Reach cfg sf /\ forall s1 ev sc tr, In (s1, ev, sc, tr) l -> Reach cfg s1 /\ exists s2, step cfg s1 ev sc = Ok (s2, tr).
Proof.
  induction h as [|[ev sc] r IH]; intros s sf l HR; cbn.
  - intros [= <- <-]. split; [exact HR|]. intros ? ? ? ? [].
  - destruct (step cfg s ev sc) as [[s' tr]| | | |] eqn:Es; try discriminate.
    destruct (replay cfg s' r) as [[sf' l']|] eqn:Er; [|discriminate]. intros [= <- <-].
    assert (HR' : Reach cfg s') by (eapply ReachS; eauto).
    destruct (IH _ _ _ HR' Er) as [Hf Hl]. split; [exact Hf|]. intros s1 ev1 sc1 tr1 [E|Hin].
    + injection E as <- <- <- <-. split; [exact HR|eauto].
    + apply Hl, Hin.
Qed.

(* commits of the current view, stored at a node, whose signature verifies against the node's block under the key of the
   validator they name *)
Definition valid_commits (s : nstate) : Z :=
  match header s with
  | None => 0
  | Some b =>
      count (fun o => match o with
                      | Some p => (p_view p =? ViewNumber s) &&
                                  match (if p_idx p <? 0 then None else nth_chk (Validators s) (Z.to_nat (p_idx p))) with
                                  | Some pub => block_verify pub b (commit_sig p)
                                  | None => false end
                      | None => false end) (CommitPayloads s)
  end.
Definition handed_over_at (tr : tr_t) : list nstate :=
  flat_map (fun sc => match snd sc with CProcessBlock _ _ => [fst sc] | _ => [] end) tr.

Definition bad_entry (x : nstate * event * list call * tr_t) : bool :=
  existsb (fun s => valid_commits s <? Mq s) (handed_over_at (snd x)).
Definition refutes (cfg : config) (h : list (event * list call)) : bool :=
  match replay cfg fresh_state h with Some (_, l) => existsb bad_entry l | None => false end.
Lemma refutes_sound cfg h : refutes cfg h = true ->
  exists st ev sc st' tr s, Reach cfg st /\ step cfg st ev sc = Ok (st', tr) /\ In s (handed_over_at tr) /\ valid_commits s < Mq s.
Proof.
  unfold refutes. destruct (replay cfg fresh_state h) as [[sf l]|] eqn:Er; [|discriminate]. intros Hb.
  apply existsb_exists in Hb. destruct Hb as ([[[s1 ev] sc] tr] & Hin & Hbad).
  destruct (replay_reach cfg _ _ _ _ (Reach0 cfg) Er) as [_ Hl]. destruct (Hl _ _ _ _ Hin) as [HR [s2 Hs]].
  unfold bad_entry in Hbad. cbn [snd] in Hbad. apply existsb_exists in Hbad. destruct Hbad as (s & Hs1 & Hlt). apply Z.ltb_lt in Hlt.
  exists s1, ev, sc, s2, tr, s. auto.
Qed.
Lemma handed_over_in tr s : In s (handed_over_at tr) -> exists h e, In (s, CProcessBlock h e) tr.
Proof.
  unfold handed_over_at. intros H. apply in_flat_map in H. destruct H as ([s' c] & Hin & Hc). cbn in Hc.
  destruct c; try (destruct Hc; fail). destruct Hc as [<-|[]]. eauto.
Qed.
