(* The functions that never broadcast a Commit (the family kd: from every state satisfying TY they preserve TY and broadcast no
   payload of type Commit); sendCommit and its callers are not among them (SignLCM.v). *)
From DbftV Require Export SignLNoCV.

Definition is_cm (c : call) : bool := match c with CBroadcast p => mtype_eqb (p_type p) CommitT | _ => false end.
Definition NoCM (s : nstate) (c : call) : Prop := is_cm c = false.
Notation kd x := (kp TY NoCM x).
Lemma kt_of_kd {A} (x : M A) : kd x -> kt x.
Proof.
  intros H s0 H0. eapply x_conseq; [apply (H s0 H0)|]. cbn. intros _ s n [P T]. split; [exact P|].
  unfold trG in *. eapply Forall_impl; [|exact T]. intros [s' c] _. exact I.
Qed.
Ltac leafd :=
  cbv beta in *;
  lazymatch goal with
  | |- TY _ =>
      match goal with H : TY _ |- _ =>
        let H1 := fresh in let H2 := fresh in destruct H as [H1 H2];
        repeat match goal with |- context[if ?b then _ else _] => destruct b end;
        split; cbn [PreCommitPayloads CommitPayloads set]; assumption end
  | |- NoCM _ ?c => match goal with H : _ = Some _ |- _ => unfold NoCM; destruct c; try reflexivity; cbn in H; discriminate H end
  | |- AnyC _ _ => exact I
  end.
Ltac kd_go := kn_go leafd.
Lemma d_broadcast m : p_type m <> CommitT -> kd (broadcast m).
Proof.
  intros Hm. unfold broadcast. apply kp_get_bind_u. intros s. unfold ask_unit. apply kp_ask. intros s' c a _ Hsel.
  assert (a = tt) by (destruct a; reflexivity). subst a. apply sel_Broadcast in Hsel. subst c. unfold NoCM, is_cm. rewrite p_type_set_idx.
  destruct (p_type m); try reflexivity. exfalso. apply Hm. reflexivity.
Qed.
#[export] Hint Extern 3 (kp TY NoCM (broadcast _)) => (apply d_broadcast; cbn; discriminate) : kpdb.

Section AutoD.
Variable cfg : config.
Lemma d_WatchOnly : kd WatchOnly. Proof. unfold WatchOnly. kd_go. Qed.
Lemma d_RSOR : kd RequestSentOrReceived. Proof. unfold RequestSentOrReceived. kd_go. Qed.
Hint Resolve d_WatchOnly d_RSOR : kpdb.
Lemma d_own_slot tbl : kd (own_slot tbl). Proof. unfold own_slot. kd_go. Qed.
Lemma d_ResponseSent : kd ResponseSent. Proof. apply d_own_slot. Qed.
Lemma d_PreCommitSent : kd PreCommitSent. Proof. apply d_own_slot. Qed.
Lemma d_CommitSent : kd CommitSent. Proof. apply d_own_slot. Qed.
Lemma d_ViewChanging : kd ViewChanging. Proof. unfold ViewChanging. kd_go. Qed.
Hint Resolve d_own_slot d_ResponseSent d_PreCommitSent d_CommitSent d_ViewChanging : kpdb.
Lemma d_NotAccepting : kd NotAcceptingPayloadsDueToViewChanging. Proof. unfold NotAcceptingPayloadsDueToViewChanging. kd_go. Qed.
Lemma d_subscribe : kd subscribeForTransactions. Proof. unfold subscribeForTransactions. kd_go. Qed.
Lemma d_unsubscribe : kd unsubscribeFromTransactions. Proof. unfold unsubscribeFromTransactions. kd_go. Qed.
Lemma d_StopTxFlow : kd StopTxFlow. Proof. unfold StopTxFlow. kd_go. Qed.
Lemma d_changeTimer d : kd (changeTimer d). Proof. unfold changeTimer. kd_go. Qed.
Hint Resolve d_NotAccepting d_subscribe d_unsubscribe d_StopTxFlow d_changeTimer : kpdb.
Lemma d_getTimestamp : kd (getTimestamp cfg). Proof. unfold getTimestamp. kd_go. Qed.
Hint Resolve d_getTimestamp : kpdb.
Lemma d_Fill f : kd (Fill cfg f). Proof. unfold Fill. kd_go. Qed.
Lemma d_MakePreHeader : kd MakePreHeader. Proof. unfold MakePreHeader. kd_go. Qed.
Hint Resolve d_Fill d_MakePreHeader : kpdb.
Lemma d_CreatePreBlock : kd CreatePreBlock. Proof. unfold CreatePreBlock. kd_go. Qed.
Lemma d_makePrepareRequest f : kd (makePrepareRequest cfg f). Proof. unfold makePrepareRequest. kd_go. Qed.
Lemma d_rtt t : kd (rtt_addTime t). Proof. unfold rtt_addTime. kd_go. Qed.
Hint Resolve d_CreatePreBlock d_makePrepareRequest d_rtt : kpdb.
Lemma d_sendRecoveryMessage : kd sendRecoveryMessage. Proof. unfold sendRecoveryMessage, makeRecoveryMessage. kd_go. Qed.
Lemma d_processMissingTx : kd processMissingTx. Proof. unfold processMissingTx. kd_go. Qed.
Hint Resolve d_sendRecoveryMessage d_processMissingTx : kpdb.
Lemma d_sendRecoveryRequest : kd sendRecoveryRequest. Proof. unfold sendRecoveryRequest. kd_go. Qed.
Hint Resolve d_sendRecoveryRequest : kpdb.
Lemma d_sendPrepareResponse : kd sendPrepareResponse. Proof. unfold sendPrepareResponse, makePrepareResponse. kd_go. Qed.
Hint Resolve d_sendPrepareResponse : kpdb.
Lemma d_extendTimer c : kd (extendTimer cfg c). Proof. unfold extendTimer. kd_go. Qed.
Lemma d_GetPrimaryIndex s v : kd (GetPrimaryIndex s v). Proof. unfold GetPrimaryIndex. kd_go. Qed.
Hint Resolve d_extendTimer d_GetPrimaryIndex : kpdb.
Lemma d_onRecoveryRequest m : kd (onRecoveryRequest cfg m). Proof. unfold onRecoveryRequest. kd_go. Qed.
Lemma d_cache_addMessage m : kd (cache_addMessage m). Proof. unfold cache_addMessage. kd_go. Qed.
Lemma d_ask_recv m : kd (ask_recv m). Proof. unfold ask_recv. kd_go. Qed.
Hint Resolve d_onRecoveryRequest d_cache_addMessage d_ask_recv : kpdb.
Lemma d_MakeHeader : kd (MakeHeader cfg). Proof. unfold MakeHeader. kd_go. Qed.
Hint Resolve d_MakeHeader : kpdb.
Lemma d_CreateBlock : kd (CreateBlock cfg). Proof. unfold CreateBlock. kd_go. Qed.
Hint Resolve d_CreateBlock : kpdb.
Lemma d_checkCommit : kd (checkCommit cfg). Proof. unfold checkCommit. kd_go. Qed.
Hint Resolve d_checkCommit : kpdb.
End AutoD.

Ltac nocm Hc := unfold NoCM; match type of Hc with _ = Some _ => idtac end;
  match goal with |- is_cm ?c = false => destruct c; try reflexivity; cbn in Hc; discriminate Hc end.
Ltac trs_d := cbn beta; rewrite ?app_nil_r; repeat first [ assumption | apply trG_nil | apply trG_app | apply trG_cons ].
Ltac kxd1 :=
  lazymatch goal with
  | |- hx _ (bind (bind _ _) _) _ => apply x_assoc
  | |- hx _ (bind get _) _ => apply x_get
  | |- hx _ (bind (ask_unit _) _) _ => unfold ask_unit at 1
  | |- hx _ (bind ask_now _) _ => unfold ask_now at 1
  | |- hx _ (bind ask_watchonly _) _ => unfold ask_watchonly at 1
  | |- hx _ (ask_unit _) _ => unfold ask_unit at 1
  | |- hx _ (bind (modify _) _) _ => apply x_modify
  | |- hx ?st (bind (ask _) _) _ =>
      apply x_ask; let a := fresh "a" in let c := fresh "c" in let Hc := fresh "Hc" in intros a c Hc;
      let Gc := fresh "Gc" in assert (Gc : NoCM st c) by (nocm Hc)
  | |- hx _ (bind (ret _) _) _ => apply x_ret_bind
  | |- hx _ (bind panic _) _ => apply x_panic_bind
  | |- hx _ (bind fatal _) _ => apply x_fatal_bind
  | |- hx _ (bind (tget _ _) _) _ => apply x_tget; let x := fresh "x" in let Hi := fresh "Hi" in let Hx := fresh "Hx" in intros x Hi Hx
  | |- hx _ (bind (tset _ _ _) _) _ => apply x_tset; let l := fresh "l" in let Hi := fresh "Hi" in let Hl := fresh "Hl" in intros l Hi Hl
  | |- hx _ (bind (if ?b then _ else _) _) _ => let E := fresh "E" in destruct b eqn:E
  | |- hx _ (if ?b then _ else _) _ => let E := fresh "E" in destruct b eqn:E
  | |- hx _ (bind (match ?o with Some _ => _ | None => _ end) _) _ => let E := fresh "E" in destruct o eqn:E
  | |- hx _ (match ?o with Some _ => _ | None => _ end) _ => let E := fresh "E" in destruct o eqn:E
  | |- hx _ (bind (let _ := _ in _) _) _ => cbv zeta
  | |- hx _ (let _ := _ in _) _ => cbv zeta
  | |- hx _ (modify _) _ => apply x_modify_last
  | |- hx ?st (ask _) _ =>
      apply x_ask_last; let a := fresh "a" in let c := fresh "c" in let Hc := fresh "Hc" in intros a c Hc;
      let Gc := fresh "Gc" in assert (Gc : NoCM st c) by (nocm Hc)
  | |- hx _ (ret _) _ => apply x_ret
  | |- hx _ panic _ => apply x_panic
  | |- hx _ fatal _ => apply x_fatal
  | |- hx _ (bind (broadcast ?m) _) _ =>
      eapply (x_kp TY NoCM); [ apply d_broadcast; first [congruence | cbn; discriminate] | ty_solve | ];
      let a := fresh "a" in let s := fresh "s" in let n := fresh "n" in let Is := fresh "Is" in let Ts := fresh "Ts" in intros a s n Is Ts
  | |- hx _ (broadcast ?m) _ =>
      eapply (x_kp_last TY NoCM); [ apply d_broadcast; first [congruence | cbn; discriminate] | ty_solve | ];
      let a := fresh "a" in let s := fresh "s" in let n := fresh "n" in let Is := fresh "Is" in let Ts := fresh "Ts" in intros a s n Is Ts
  | |- hx _ (bind _ _) _ =>
      eapply (x_kp TY NoCM); [ solve [eauto 3 with kpdb] | ty_solve | ];
      let a := fresh "a" in let s := fresh "s" in let n := fresh "n" in let Is := fresh "Is" in let Ts := fresh "Ts" in intros a s n Is Ts
  | |- hx _ _ _ =>
      eapply (x_kp_last TY NoCM); [ solve [eauto 3 with kpdb] | ty_solve | ];
      let a := fresh "a" in let s := fresh "s" in let n := fresh "n" in let Is := fresh "Is" in let Ts := fresh "Ts" in intros a s n Is Ts
  end.
Ltac kxd_fin := cbn beta; lazymatch goal with |- TY _ /\ trG _ _ => split; [ty_solve | trs_d] | |- _ => idtac end.
Ltac kxd_go := repeat kxd1; kxd_fin.


Section ManualD.
Variable cfg : config.
Hint Resolve d_WatchOnly d_RSOR d_own_slot d_ResponseSent d_PreCommitSent d_CommitSent d_ViewChanging d_NotAccepting d_subscribe d_unsubscribe
  d_StopTxFlow d_changeTimer d_getTimestamp d_Fill d_MakePreHeader d_CreatePreBlock d_makePrepareRequest d_rtt d_sendRecoveryMessage
  d_processMissingTx d_sendRecoveryRequest d_sendPrepareResponse d_extendTimer d_GetPrimaryIndex d_onRecoveryRequest d_cache_addMessage
  d_ask_recv d_MakeHeader d_CreateBlock d_checkCommit : kpdb.
Lemma mpc_spec_d s0 : TY s0 -> hx s0 makePreCommit (fun r s tr => TY s /\ trG NoCM tr /\ forall m, r = Some m -> p_type m = PreCommitT).
Proof.
  intros H0. unfold makePreCommit. repeat kxd1; cbn beta.
  all: split; [ty_solve|split; [trs_d|]].
  all: try (intros m' Em; discriminate Em).
  - intros m' [= <-]. unfold TY, TYp in H0. apply (proj1 H0 _ _ Hx).
  - intros m' [= <-]. reflexivity.
Qed.
Lemma d_sendPreCommit : kd sendPreCommit.
Proof.
  intros s0 H0. unfold sendPreCommit. eapply x_call; [apply (mpc_spec_d s0 H0)|]. intros r s1 n1 (I1 & T1 & Hty). cbn beta.
  destruct r as [msg|]; [specialize (Hty msg eq_refl)|]; kxd_go.
Qed.
Hint Resolve d_sendPreCommit : kpdb.
Lemma d_verifyCommits : kd (verifyCommitPayloadsAgainstHeader cfg).
Proof.
  unfold verifyCommitPayloadsAgainstHeader. apply kp_get_bind_u. intros s. apply kp_forM. intros i s1 H1. kxd_go.
Qed.
Lemma d_verifyPreCommits : kd verifyPreCommitPayloadsAgainstPreBlock.
Proof.
  unfold verifyPreCommitPayloadsAgainstPreBlock. apply kp_get_bind_u. intros s. destruct (negb _); [apply kp_ret|]. apply kp_forM. intros i s1 H1. kxd_go.
Qed.
Hint Resolve d_verifyCommits d_verifyPreCommits : kpdb.
Lemma d_updateExistingPayloads m : kd (updateExistingPayloads cfg m). Proof. unfold updateExistingPayloads. kd_go. Qed.
Lemma d_onCommit msg : p_type msg = CommitT -> kd (onCommit cfg msg).
Proof. intros Ty s0 H0. unfold onCommit. kxd_go. Qed.
Lemma d_makeChangeView ts r : kd (makeChangeView ts r). Proof. unfold makeChangeView. kd_go. Qed.
Hint Resolve d_makeChangeView : kpdb.
Lemma d_keep_changeviews n : forall i v a b, kd (keep_changeviews i n v a b).
Proof. induction n as [|n IH]; intros i v a b; cbn [keep_changeviews]; kd_go. Qed.
Hint Resolve d_keep_changeviews : kpdb.
Lemma d_reset view ts : kd (reset cfg view ts).
Proof. intros s0 H0. unfold reset, unsubscribeFromTransactions, GetPrimaryIndex. kxd_go. Qed.
End ManualD.
