(* C03, the lock after the PreCommit: initialisation, the API, histories (SignLApi.v with the roles of the phases exchanged) *)
From DbftV Require Export SignPRec.
From DbftV Require Import Replay.

Section ApiP.
Variable cfg : config.
Hint Resolve h_WatchOnly h_RSOR h_own_slot h_ResponseSent h_PreCommitSent h_CommitSent h_ViewChanging h_NotAccepting h_subscribe h_unsubscribe
  h_StopTxFlow h_changeTimer h_getTimestamp h_MakeHeader cfg h_CreateBlock cfg h_broadcast h_rtt h_makeRecoveryMessage h_sendRecoveryMessage
  h_processMissingTx h_sendRecoveryRequest h_makeChangeView h_makeCommit cfg h_sendCommit cfg h_verifyPreCommits h_extendTimer h_GetPrimaryIndex
  h_onRecoveryRequest h_cache_addMessage h_ask_recv h_MakeHeader h_CreateBlock h_makeCommit h_sendCommit h_verifyCommits h_checkCommit
  h_checkPreCommit h_checkPrepare h_onCommit h_onPreCommit h_updateExistingPayloads : kpdb.
Hint Extern 4 (kp Inv2 G2 _) => (apply K2_of_k2; intros; solve [eauto 3 with kpdb]) : kpdb.
Hint Resolve u_WatchOnly u_RSOR u_own_slot u_ResponseSent u_PreCommitSent u_CommitSent u_ViewChanging u_NotAccepting u_subscribe u_unsubscribe
  u_StopTxFlow u_changeTimer u_getTimestamp u_Fill u_MakeHeader u_CreateBlock u_broadcast u_makePrepareRequest u_rtt
  u_makeRecoveryMessage u_sendRecoveryMessage u_processMissingTx u_sendRecoveryRequest u_makeChangeView u_makePrepareResponse
  u_sendPrepareResponse u_makeCommit u_sendCommit u_verifyCommits u_extendTimer u_GetPrimaryIndex u_onRecoveryRequest
  u_cache_addMessage u_ask_recv u_MakePreHeader u_CreatePreBlock u_checkCommit u_verifyPreCommits u_updateExistingPayloads u_onPreCommit u_onCommit u_checkPreCommit u_sendCommit u_makeCommit u_MakeHeader u_CreateBlock u_verifyCommits : kpdb.
Hint Resolve pq_sendPreCommit pq_checkPreCommit pq_checkPrepare pq_sendPrepareRequest pq_onPrepareResponse pq_onPreCommit : krdb.
Hint Resolve K_onPrepareResponse : kpdb.
Ltac fixapp := cbn; let s := fresh "s" in let n := fresh "n" in let P := fresh "P" in intros _ s n P; rewrite <- ?app_assoc in *; cbn [app] in *; exact P.



Lemma pi_ic_rest ic view : (forall v t, K2 (ic v t)) -> ICr ic -> kri (ic_rest cfg ic view).
Proof.
  intros HicK Hic. pose proof (pi_replay_map cfg ic HicK Hic) as Hr. pose proof (K_replay_map cfg ic HicK) as HKr.
  unfold ic_rest. kri_go.
Qed.

Lemma pq_ic_body ic : (forall v t, K2 (ic v t)) -> ICr ic -> ICr (initializeConsensus_body cfg ic).
Proof.
  intros HicK Hic view ts vs mi g0 s0 H0 Hv. rewrite ic_body_unfold.
  eapply x_call; [apply (x_conj _ _ _ _ (reset_spec cfg view ts s0) (reset_r cfg view ts vs mi g0 s0 H0 Hv))|].
  intros [] s1 n1 [(J1 & _) (I1 & _)]. cbn beta.
  eapply x_conseq; [apply (pi_ic_rest ic view HicK Hic vs mi (g0 ++ n1) s1 J1 I1)|]. cbn. intros _ s n P. rewrite app_assoc. exact P.
Qed.
Lemma pq_initializeConsensus fuel : ICr (initializeConsensus cfg fuel).
Proof.
  induction fuel as [|f IH]; [intros v t vs mi g0 s0 _ _; apply x_oof|]. cbn [initializeConsensus].
  apply pq_ic_body; [intros v t; apply K2_initializeConsensus|exact IH].
Qed.
Lemma pq_init : ICr (init cfg). Proof. apply pq_initializeConsensus. Qed.
Let HK := fun v t => K_init cfg v t.
Let HQ := pq_init.

Definition Fresh7 (s : nstate) (tr : tr_t) : Prop := forall mi, KS mi tr -> I7 (Validators s) mi (nset tr) (set_precommit tr) s.
Lemma Fresh7_I7g s tr mi : Fresh7 s tr -> I7g (Validators s) mi tr s.
Proof. intros H Hk. apply (H mi Hk). Qed.
Lemma I3g_Fresh3 s tr : (forall mi, exists vs, I7g vs mi tr s) -> Fresh7 s tr.
Proof. intros H mi Hk. destruct (H mi) as [vs Hv]. pose proof (Hv Hk) as HI. assert (E : Validators s = vs) by apply HI. rewrite E. exact HI. Qed.

Lemma init_0p ts s0 : hx s0 (init cfg 0 ts) (fun _ s tr => Inv2 s /\ Fresh7 s tr).
Proof.
  rewrite init_unfold. pose proof (pq_initializeConsensus 257) as Hic. pose proof (K2_initializeConsensus cfg 257) as HicK.
  revert Hic HicK. generalize (initializeConsensus cfg 257) as ic. intros ic Hic HicK. rewrite ic_body_unfold.
  eapply x_call; [apply (x_conj _ _ _ _ (reset_spec cfg 0 ts s0) (reset_0p cfg ts s0))|]. intros [] s1 n1 [(J1 & _) (N1 & P1)]. cbn beta.
  assert (HK2 : K2 (ic_rest cfg ic 0)).
  { pose proof (K_replay_map cfg ic HicK) as HKr. unfold ic_rest. kp_go leafK. all: try apply HKr. }
  assert (HF : hx s1 (ic_rest cfg ic 0) (fun _ s tr => forall mi, I7g (Validators s1) mi (n1 ++ tr) s)).
  { apply (x_forall 0 s1 _ (fun mi _ s tr => I7g (Validators s1) mi (n1 ++ tr) s)). intros mi.
    apply (pi_ic_rest ic 0 HicK Hic (Validators s1) mi n1 s1 J1). intros Hk. rewrite N1. apply (P1 mi _ Hk). }
  eapply x_conseq; [apply (x_conj _ _ _ _ (HK2 s1 J1) HF)|].
  cbn. intros _ s n [[J _] P]. split; [exact J|]. apply I3g_Fresh3. intros mi. exists (Validators s1). apply P.
Qed.

Lemma fresh_Startp ts s0 : Inv2 s0 -> hx s0 (Start cfg ts) (fun _ s tr => Inv2 s /\ Fresh7 s tr).
Proof.
  intros J0. assert (HF : hx s0 (Start cfg ts) (fun _ s tr => Fresh7 s tr)); [|eapply x_conseq; [apply (x_conj _ _ _ _ (K_Start cfg ts s0 J0) HF)|cbn; intros _ s n [[J _] F]; exact (conj J F)]].
  unfold Start. apply x_modify.
  eapply x_call; [apply init_0p|]. intros [] s1 n1 [J1 F1]. cbn beta.
  assert (Hrest : kr (s <- get ;; if IsPrimary s then (wo <- WatchOnly ;; if wo then ret tt else sendPrepareRequest cfg true) else ret tt)) by kr_go.
  eapply x_conseq; [apply (x_forall 0 s1 _ (fun mi _ s tr => I7g (Validators s1) mi (n1 ++ tr) s))|].
  - intros mi. apply (Hrest (Validators s1) mi n1 s1). apply Fresh7_I7g. exact F1.
  - cbn. intros _ s n P. apply I3g_Fresh3. intros mi. exists (Validators s1). apply P.
Qed.
Lemma fresh_Resetp ts s0 : hx s0 (Reset cfg ts) (fun _ s tr => Inv2 s /\ Fresh7 s tr).
Proof. apply init_0p. Qed.

(* the guards of the remaining entry points: after CommitSent has answered "no", nothing is signed *)
Lemma kr_os_precommit {B} (f : bool -> M B) : kr (f true) -> kzp (f false) -> kr (bind PreCommitSent f).
Proof.
  intros Ht Hf vs mi g0 s0 H0. eapply x_call; [apply (os_specp PreCommitPayloads s0)|]. intros cs s1 n1 (-> & N1 & Hcs). cbn beta.
  assert (I1 : I7g vs mi (g0 ++ n1) s0) by (apply I7g_pad; assumption).
  destruct cs.
  - eapply x_conseq; [apply (Ht vs mi (g0 ++ n1) s0 I1)|]. cbn. intros b s n P. rewrite app_assoc. exact P.
  - eapply x_conseq; [apply (Hf vs mi (g0 ++ n1) s0 I1)|].
    + intros Hk Hs. apply KS_app in Hk. destruct Hk as [Hk0 Hk1]. rewrite nset_app, N1, Nat.add_0_r.
      apply (unset_when_no_own_precommit vs mi g0 s0 H0 Hk0); [|exact Hs].
      specialize (Hcs mi Hk1). destruct (slot (PreCommitPayloads s0) (MyIndex s0)); [discriminate Hcs|reflexivity].
    + cbn. intros b s n P. rewrite app_assoc. exact P.
Qed.
Ltac lvl0 := apply kr_of_k3; solvek7.
Lemma pq_OnTransaction t : kr (OnTransaction cfg t).
Proof.
  assert (Ha : forall t, kzp (addTransaction cfg (init cfg) t)) by (first [exact (pz_addTransaction cfg (init cfg) HK HQ) | exact (pz_addTransaction cfg (init cfg) HQ)]).
  unfold OnTransaction. apply kr_get_bind; intro s. destruct (negb (IsBackup s)); [apply kr_ret|].
  apply kr_bind; [lvl0|intro na]. destruct na; [apply kr_ret|].
  apply kr_bind; [lvl0|intro rs]. destruct (negb rs); [apply kr_ret|].
  apply kr_bind; [lvl0|intro x1]. destruct x1; [apply kr_ret|].
  apply kr_os_precommit; [cbv beta iota; apply kr_ret|cbv beta iota; kzp_go].
Qed.
Lemma pq_onTimeout h v f : kr (onTimeout cfg h v f).
Proof.
  assert (Hs : forall r, kzp (sendChangeView (init cfg) r)) by (first [exact (pz_sendChangeView (init cfg) HK HQ) | exact (pz_sendChangeView (init cfg) HQ) | exact (pz_sendChangeView cfg (init cfg) HK HQ) | exact (pz_sendChangeView cfg (init cfg) HQ)]).
  unfold onTimeout. apply kr_bind; [lvl0|intro wo]. apply kr_get_bind; intro s.
  destruct (wo || blockProcessed s); [apply kr_ret|]. destruct (_ || _); [apply kr_ret|].
  apply kr_bind; [destruct (IsPrimary s); [lvl0|apply kr_ret]|intro rs].
  destruct (IsPrimary s && negb rs); [apply pq_sendPrepareRequest|].
  destruct (_ || _); [|apply kr_ret].
  apply kr_bind; [lvl0|intro cs]. destruct cs; cbv beta iota; cbn [orb]; [kr_go|].
  apply kr_os_precommit; [cbv beta iota; kr_go|cbv beta iota; kzp_go].
Qed.
Lemma pq_OnNewTransaction : kr (OnNewTransaction cfg).
Proof. unfold OnNewTransaction. pose proof pq_onTimeout as Ht. kr_go. Qed.

Lemma pi_run_event e : continues e -> kri (run_event cfg e).
Proof.
  destruct e; cbn [run_event continues]; intros Hc; try contradiction.
  - apply (pi_OnReceive cfg (init cfg) HK HQ). - apply kri_of_kq, pq_onTimeout. - apply kri_of_kq, pq_OnTransaction. - apply kri_of_kq, pq_OnNewTransaction.
Qed.


Theorem epoch_invp st g : Epoch cfg st g -> Fresh7 st g.
Proof.
  induction 1 as [st ts sc st' tr HR Hs|st ts sc st' tr HR Hs|st g ev sc st' tr HE IH Hc Hs].
  - apply (step_hx cfg st (EStart ts) sc st' tr (fun s n => Inv2 s /\ Fresh7 s n) (fresh_Startp ts st (proposal_reach cfg st HR)) Hs).
  - apply (step_hx cfg st (EReset ts) sc st' tr (fun s n => Inv2 s /\ Fresh7 s n) (fresh_Resetp ts st) Hs).
  - apply I3g_Fresh3. intros mi. exists (Validators st).
    apply (step_hx cfg st ev sc st' tr (fun s n => I7g (Validators st) mi (g ++ n) s)); [|exact Hs].
    apply (pi_run_event ev Hc (Validators st) mi g st (proposal_reach cfg st (epoch_reach cfg st g HE))). apply Fresh7_I7g. exact IH.
Qed.

(* an honest node signs at most one block per epoch *)
Theorem one_precommit_per_epoch st g mi :
  Epoch cfg st g -> KS mi g -> zlen (Validators st) <= 65536 -> (nset g <= 1)%nat.
Proof. intros HE Hk Hs. destruct (epoch_invp st g HE mi Hk) as (_ & _ & _ & _ & A5). apply (p4 _ _ _ _ (A5 Hs)). Qed.

(* once it has signed, its ownp Commit slot holds exactly the commit it built then; the node is still in the view of that commit,
   and its preheader is the block that was signed *)
Theorem set_precommit_is_kept st g mi :
  Epoch cfg st g -> KS mi g -> zlen (Validators st) <= 65536 -> nset g <> 0%nat ->
  exists c b, set_precommit g = Some c /\ slot (PreCommitPayloads st) mi = Some c /\ MyIndex st = mi /\ p_idx c = mi /\
              p_view c = ViewNumber st /\ sg_key (precommit_data c) = MyKey st /\ preheader st = Some b /\ sg_hash (precommit_data c) = preblock_hash b.
Proof.
  intros HE Hk Hs Hn. destruct (epoch_invp st g HE mi Hk) as (_ & A2 & _ & _ & A5).
  destruct (p2 _ _ _ _ (A5 Hs) Hn) as (c & b & C0 & C1 & C2 & C3 & C4 & C5 & C6). exists c, b. auto 10.
Qed.

Lemma set_precommit_prefix g tr : nset g <> 0%nat -> set_precommit (g ++ tr) = set_precommit g.
Proof. induction g as [|[s c] r IH]; [intros H; exfalso; apply H; reflexivity|]. destruct c; cbn; try exact IH. reflexivity. Qed.
Lemma epoch_validatorsp st g ev sc st' tr mi : Epoch cfg st g -> continues ev -> step cfg st ev sc = Ok (st', tr) -> KS mi (g ++ tr) ->
  Validators st' = Validators st.
Proof.
  intros HE Hc Hs Hk.
  pose proof (step_hx cfg st ev sc st' tr (fun s n => I7g (Validators st) mi (g ++ n) s)
                (pi_run_event ev Hc (Validators st) mi g st (proposal_reach cfg st (epoch_reach cfg st g HE)) (Fresh7_I7g _ _ _ (epoch_invp st g HE))) Hs Hk) as HI.
  apply HI.
Qed.

(* the commit lock: after the signature no call of the epoch changes the view, asks for another signature or touches the ownp slot *)
Theorem precommit_lock st g ev sc st' tr mi :
  Epoch cfg st g -> continues ev -> step cfg st ev sc = Ok (st', tr) -> KS mi (g ++ tr) -> zlen (Validators st) <= 65536 -> nset g <> 0%nat ->
  ViewNumber st' = ViewNumber st /\ nset tr = 0%nat /\ slot (PreCommitPayloads st') mi = slot (PreCommitPayloads st) mi /\ MyIndex st' = MyIndex st.
Proof.
  intros HE Hc Hs Hk Hsm Hn. pose proof Hk as Hk'. apply KS_app in Hk'. destruct Hk' as [Hk0 _].
  assert (HE' : Epoch cfg st' (g ++ tr)) by (eapply EpochStep; eauto).
  assert (Hsm' : zlen (Validators st') <= 65536) by (rewrite (epoch_validatorsp st g ev sc st' tr mi HE Hc Hs Hk); exact Hsm).
  assert (Hn' : nset (g ++ tr) <> 0%nat) by (rewrite nset_app; lia).
  destruct (set_precommit_is_kept st g mi HE Hk0 Hsm Hn) as (c & b & C0 & C1 & C2 & C3 & C4 & _).
  destruct (set_precommit_is_kept st' (g ++ tr) mi HE' Hk Hsm' Hn') as (c' & b' & D0 & D1 & D2 & D3 & D4 & _).
  rewrite (set_precommit_prefix g tr Hn), C0 in D0. injection D0 as <-.
  pose proof (one_precommit_per_epoch st' (g ++ tr) mi HE' Hk Hsm') as H1. rewrite nset_app in H1.
  split; [congruence|split; [lia|split; congruence]].
Qed.
End ApiP.
