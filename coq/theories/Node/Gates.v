(* Gates (C02 counting clause, C04, C07): every gated callback - broadcast of a PrepareResponse / Commit / PreCommit,
   ProcessBlock, ProcessPreBlock - is made only in a state that satisfies its gate, for EVERY state, event and script. *)
From DbftV Require Export RT Payload Tables.

Section Gates.
Variable cfg : config.

Definition is_req (o : option payload) : bool := match o with Some p => mtype_eqb (p_type p) PrepareRequestT | None => false end.
Definition slot (tbl : list (option payload)) (i : Z) : option payload :=
  if i <? 0 then None else match nth_chk tbl (Z.to_nat i) with Some o => o | None => None end.

(* M preparations of the current view, a PrepareRequest among them, every transaction of the proposal present *)
Definition prep_quorum (s : nstate) : Prop :=
  hasAllTransactions s = true /\ Mq s <= count_view (ViewNumber s) (PreparationPayloads s) /\ existsb is_req (PreparationPayloads s) = true.
Definition precommit_quorum (s : nstate) : Prop :=
  hasAllTransactions s = true /\ Mq s <= count_view (ViewNumber s) (PreCommitPayloads s).
Definition commit_quorum (s : nstate) : Prop :=
  hasAllTransactions s = true /\ Mq s <= count_view (ViewNumber s) (CommitPayloads s).

Definition RespGuard (s : nstate) (p : payload) : Prop :=
  hasAllTransactions s = true /\
  exists r, p_body p = B0 (BPrepareResponse (payload_hash r)) /\ (MyIndex s <> PrimaryIndex s -> slot (PreparationPayloads s) (PrimaryIndex s) = Some r).
Definition CommitGuard (s : nstate) : Prop :=
  if amev_on cfg s then precommit_quorum s /\ preBlockProcessed s = true /\ slot (PreCommitPayloads s) (MyIndex s) <> None
  else prep_quorum s.
Definition PreCommitGuard (s : nstate) : Prop := amev_on cfg s = true /\ prep_quorum s.
(* C15: a proposal is built from the context's timestamp, nonce and transaction list, and that timestamp is not below
   previous + increment (mod 2^64, as the code computes it) *)
Definition ReqGuard (s : nstate) (p : payload) : Prop :=
  p_body p = B0 (BPrepareRequest (Timestamp s) (Nonce s) (TransactionHashes s)) /\ p_height p = BlockIndex s /\ p_view p = ViewNumber s /\
  u64 (lastBlockTimestamp s + cfg_inc cfg) <= Timestamp s.

Definition G (s : nstate) (c : call) : Prop :=
  match c with
  | CBroadcast p => (match p_type p with
                     | PrepareRequestT => ReqGuard s p
                     | PrepareResponseT => RespGuard s p
                     | CommitT => CommitGuard s
                     | PreCommitT => PreCommitGuard s
                     | _ => True end) /\
                    (p_type p <> RecoveryMessageT -> blockProcessed s = false)   (* C05: after the decision only recovery replies *)
  | CProcessBlock _ _ => commit_quorum s /\ blockProcessed s = false            (* C05: at most one hand-over per height *)
  | CProcessPreBlock _ _ => amev_on cfg s = true /\ precommit_quorum s /\ preBlockProcessed s = false
  | CTimerReset h v _ => h = BlockIndex s /\ v = ViewNumber s        (* C10: the timer is armed for the node's epoch at that instant *)
  | CSubscribe => cfg_dyn cfg = true                                 (* C16: the subscription callback only with the extension configured *)
  | CNewBlock _ => amev_on cfg s = true -> preBlockProcessed s = true   (* C07: the final block is built only after the pre-block was accepted *)
  | _ => True
  end.

(* what the helpers between a gate check and the gated callback leave untouched *)
Definition RFr (a b : nstate) : Prop :=
  BlockIndex b = BlockIndex a /\ ViewNumber b = ViewNumber a /\ Validators b = Validators a /\ MyIndex b = MyIndex a /\
  PrimaryIndex b = PrimaryIndex a /\ TransactionHashes b = TransactionHashes a /\ Transactions b = Transactions a /\
  PreparationPayloads b = PreparationPayloads a /\ PreCommitPayloads b = PreCommitPayloads a /\ CommitPayloads b = CommitPayloads a /\
  preBlockProcessed b = preBlockProcessed a /\ blockProcessed b = blockProcessed a /\
  ChangeViewPayloads b = ChangeViewPayloads a /\ LastChangeViewPayloads b = LastChangeViewPayloads a.
Lemma RFr_refl s : RFr s s. Proof. unfold RFr; repeat split; reflexivity. Qed.
Lemma RFr_trans a b c : RFr a b -> RFr b c -> RFr a c.
Proof. unfold RFr. intros H1 H2. decompose [and] H1. decompose [and] H2. repeat split; congruence. Qed.
Definition RF : rel := mkRel RFr RFr_refl RFr_trans.

(* typed tables: every slot holds a payload of the kind the table is for *)
Definition is_prep (p : payload) : Prop := p_type p = PrepareRequestT \/ p_type p = PrepareResponseT.
Definition Inv (s : nstate) : Prop :=
  tall is_prep (PreparationPayloads s) /\ tall (fun p => p_type p = PreCommitT) (PreCommitPayloads s) /\
  tall (fun p => p_type p = CommitT) (CommitPayloads s) /\ tall (fun p => p_type p = ChangeViewT) (ChangeViewPayloads s) /\
  tall (fun p => p_type p = ChangeViewT) (LastChangeViewPayloads s).
Definition RIr (a b : nstate) : Prop := (Inv a -> Inv b) /\ blockProcessed b = blockProcessed a.
Definition RI : rel := mkRel RIr (fun s => conj (fun H => H) eq_refl)
                             (fun a b c H1 H2 => conj (fun H => proj1 H2 (proj1 H1 H)) (eq_trans (proj2 H2) (proj2 H1))).
Lemma RF_RI a b : RF a b -> RI a b.
Proof.
  unfold RF, RFr, RI, RIr, Inv. cbn. intros (_ & _ & _ & _ & _ & _ & _ & E1 & E2 & E3 & _ & EB & E4 & E5). split; [|exact EB].
  intros (I1 & I2 & I3 & I4 & I5). rewrite E1, E2, E3, E4, E5. repeat split; assumption.
Qed.

Ltac leafG :=
  idtac; match goal with
  | |- True => exact I
  | |- rel_R RF _ _ => unfold RF, RFr; cbn; repeat split; reflexivity
  | |- rel_R relT _ _ => exact I
  | |- rel_R RI _ _ => unfold RI, RIr, Inv, empty_tbl; cbn;
        repeat match goal with |- context[if ?b then _ else _] => destruct b end; cbn;
        (split; [|reflexivity]);
        let H := fresh in intro H; destruct H as (?I1 & ?I2 & ?I3 & ?I4 & ?I5);
        repeat split; first [assumption | apply tall_empty]
  | H : _ = Some ?a |- G _ ?c =>
      first [ try (destruct a); apply sel_Broadcast in H; subst c; unfold mk_payload; cbn; split; [exact I | let Hne := fresh in intro Hne; exfalso; apply Hne; reflexivity]
            | destruct c; try discriminate; exact I ]
  end.

Notation rtF := (rt G RF).
Notation rtI := (rt G RI).
Lemma toI {A} (x : M A) : rtF x -> rtI x.
Proof. apply rt_weaken; auto. apply RF_RI. Qed.

(* ---- helpers that keep the frame ---- *)
Lemma f_WatchOnly : rtF WatchOnly. Proof. unfold WatchOnly. rt_go leafG. Qed.
Hint Resolve f_WatchOnly : rtdb.
Lemma f_RequestSentOrReceived : rtF RequestSentOrReceived. Proof. unfold RequestSentOrReceived. rt_go leafG. Qed.
Hint Resolve f_RequestSentOrReceived : rtdb.
Lemma f_own_slot tbl : rtF (own_slot tbl). Proof. unfold own_slot. rt_go leafG. Qed.
Hint Resolve f_own_slot : rtdb.
Lemma f_PreCommitSent : rtF PreCommitSent. Proof. apply f_own_slot. Qed.
Lemma f_CommitSent : rtF CommitSent. Proof. apply f_own_slot. Qed.
Lemma f_ResponseSent : rtF ResponseSent. Proof. apply f_own_slot. Qed.
Hint Resolve f_PreCommitSent f_CommitSent f_ResponseSent : rtdb.
Lemma f_ViewChanging : rtF ViewChanging. Proof. unfold ViewChanging. rt_go leafG. Qed.
Hint Resolve f_ViewChanging : rtdb.
Lemma f_StopTxFlow : rtF StopTxFlow. Proof. unfold StopTxFlow. rt_go leafG. Qed.
Lemma f_changeTimer d : rtF (changeTimer d).
Proof.
  intros s0. unfold changeTimer. apply x_get. unfold ask_unit. apply x_ask_last. intros [] c Hc.
  split; [apply (R_refl RF)|]. apply trG_cons; [|apply trG_nil].
  destruct c; try discriminate Hc. cbn.
  destruct ((h =? BlockIndex s0) && (v =? ViewNumber s0) && (d0 =? d)) eqn:E; [|discriminate Hc].
  apply andb_true_iff in E. destruct E as [E _]. apply andb_true_iff in E. destruct E as [E1 E2].
  apply Z.eqb_eq in E1, E2. auto.
Qed.
Hint Resolve f_StopTxFlow f_changeTimer : rtdb.
Lemma f_MakeHeader : rtF (MakeHeader cfg).
Proof.
  intros s0. unfold MakeHeader. apply x_get. destruct (header s0).
  { apply x_ret. split; [apply (R_refl RF)|apply trG_nil]. }
  eapply x_rt; [apply f_RequestSentOrReceived|]. intros rs s1 n1 R1 T1. cbn beta.
  destruct (negb rs). { apply x_ret. rewrite app_nil_r. split; assumption. }
  destruct (amev_on cfg s0 && negb (preBlockProcessed s0)) eqn:Eg. { apply x_ret. rewrite app_nil_r. split; assumption. }
  apply x_ask. intros ok c Hc. apply sel_NewBlock in Hc. subst c.
  assert (Gc : G s1 (CNewBlock ok)).
  { cbn. intros Ha. destruct R1 as (E1 & _ & _ & _ & _ & _ & _ & _ & _ & _ & E11 & _). unfold amev_on in *. rewrite E1 in Ha. rewrite Ha in Eg. cbn in Eg.
    rewrite E11. destruct (preBlockProcessed s0); [reflexivity|discriminate]. }
  destruct ok.
  - apply x_modify. apply x_ret. split.
    + apply (R_trans RF _ s1); [exact R1|]. unfold RF, RFr. cbn. repeat split; reflexivity.
    + apply trG_app; [exact T1|]. apply trG_cons; [exact Gc|apply trG_nil].
  - apply x_ret. split; [exact R1|]. apply trG_app; [exact T1|]. apply trG_cons; [exact Gc|apply trG_nil].
Qed.
Lemma f_MakePreHeader : rtF MakePreHeader. Proof. unfold MakePreHeader. rt_go leafG. Qed.
Hint Resolve f_MakeHeader f_MakePreHeader : rtdb.
Lemma f_CreateBlock : rtF (CreateBlock cfg). Proof. unfold CreateBlock. rt_go leafG. Qed.
Lemma f_CreatePreBlock : rtF CreatePreBlock. Proof. unfold CreatePreBlock. rt_go leafG. Qed.
Hint Resolve f_CreateBlock f_CreatePreBlock : rtdb.
Lemma f_makeCommit : rtF (makeCommit cfg). Proof. unfold makeCommit. rt_go leafG. Qed.
Lemma f_makePreCommit : rtF makePreCommit. Proof. unfold makePreCommit. rt_go leafG. Qed.
Hint Resolve f_makeCommit f_makePreCommit : rtdb.
Lemma f_extendTimer c : rtF (extendTimer cfg c). Proof. unfold extendTimer. rt_go leafG. Qed.
Hint Resolve f_extendTimer : rtdb.

(* ---- typed-invariant + gates, function by function (rtI) ---- *)
Hint Resolve toI : rtdb.
Lemma i_subscribe : cfg_dyn cfg = true -> rtI subscribeForTransactions.
Proof.
  intros Hd. unfold subscribeForTransactions. apply rt_bind; [rt_go leafG|intros _]. unfold ask_unit. apply rt_ask. intros s c a Hc.
  destruct c; try discriminate Hc. exact Hd.
Qed.
Lemma i_unsubscribe : rtI unsubscribeFromTransactions. Proof. unfold unsubscribeFromTransactions. rt_go leafG. Qed.
Hint Resolve i_subscribe i_unsubscribe : rtdb.
Lemma i_GetPrimaryIndex s v : rtI (GetPrimaryIndex s v). Proof. unfold GetPrimaryIndex. rt_go leafG. Qed.
Hint Resolve i_GetPrimaryIndex : rtdb.
Lemma i_getTimestamp : rtI (getTimestamp cfg). Proof. unfold getTimestamp. rt_go leafG. Qed.
Hint Resolve i_getTimestamp : rtdb.
Lemma i_Fill f : rtI (Fill cfg f). Proof. unfold Fill. rt_go leafG. Qed.
Hint Resolve i_Fill : rtdb.
Lemma i_rtt t : rtI (rtt_addTime t). Proof. unfold rtt_addTime. rt_go leafG. Qed.
Hint Resolve i_rtt : rtdb.
Lemma i_processMissingTx : rtI processMissingTx. Proof. unfold processMissingTx. rt_go leafG. Qed.
Hint Resolve i_processMissingTx : rtdb.
Lemma i_NotAccepting : rtI NotAcceptingPayloadsDueToViewChanging. Proof. unfold NotAcceptingPayloadsDueToViewChanging. rt_go leafG. Qed.
Hint Resolve i_NotAccepting : rtdb.
Lemma i_sendRecoveryMessage : rtI sendRecoveryMessage.
Proof. unfold sendRecoveryMessage, makeRecoveryMessage, broadcast. rt_go leafG. Qed.
Hint Resolve i_sendRecoveryMessage : rtdb.
Lemma p_type_set_idx (m : payload) i : p_type (m <| p_idx := i |>) = p_type m.
Proof. destruct m. reflexivity. Qed.
Lemma p_body_set_idx (m : payload) i : p_body (m <| p_idx := i |>) = p_body m.
Proof. destruct m. reflexivity. Qed.

(* ---- undecided states: U s; every non-recovery broadcast and every ProcessBlock needs it ---- *)
Definition U (s : nstate) : Prop := blockProcessed s = false.
Lemma RI_U a b : RI a b -> U a -> U b. Proof. intros (_ & E) H. unfold U in *. congruence. Qed.
Lemma RI_Inv a b : RI a b -> Inv a -> Inv b. Proof. intros (H & _). exact H. Qed.
Lemma RF_U a b : RF a b -> U a -> U b. Proof. intros H. apply RI_U, RF_RI, H. Qed.

(* broadcasting an ungated, non-recovery payload from an undecided state *)
Definition ungated (t : mtype) : Prop := t <> PrepareRequestT /\ t <> PrepareResponseT /\ t <> CommitT /\ t <> PreCommitT.
Lemma G_broadcast_ungated s m i : ungated (p_type m) -> U s -> G s (CBroadcast (m <| p_idx := i |>)).
Proof.
  intros (U0 & U1 & U2 & U3) Hu. unfold G. rewrite p_type_set_idx. split; [|intros _; exact Hu].
  destruct (p_type m); try exact I; congruence.
Qed.

(* finishing tactics for the manual (table-touching / gate-site) lemmas *)
Ltac inv_set :=
  repeat split;
  first [ assumption | apply tall_empty
        | eapply tall_set; [ | | eassumption ];
          [ eassumption | let p := fresh in let E := fresh in intros p E; try discriminate E; injection E as E; subst; unfold is_prep, mk_payload; cbn; auto ] ].
Ltac inv_fin :=
  unfold RI, RIr, Inv, empty_tbl; cbn; split; [|reflexivity];
  let H := fresh in intro H; destruct H as (?I1 & ?I2 & ?I3 & ?I4 & ?I5); inv_set.
Ltac gleaf :=
  idtac; match goal with
  | |- G _ ?c =>
      match goal with
      | H : _ = Some ?a |- _ =>
          match type of H with context[c] =>
            first [ try (destruct a); apply sel_Broadcast in H; subst c; unfold mk_payload; cbn; split; [exact I|let Hne := fresh in intro Hne; exfalso; apply Hne; reflexivity]
                  | destruct c; try discriminate H; exact I ] end
      end
  end.
Ltac trg := repeat first [ apply trG_nil | apply trG_cons; [try solve [gleaf]|] | rewrite ?app_nil_r; assumption | apply trG_app ].
Ltac fin := split; [try solve [inv_fin] | try solve [trg]].

Lemma i_makeChangeView ts r : rtI (makeChangeView ts r).
Proof. intros s0. unfold makeChangeView. xs. fin. Qed.
Hint Resolve i_makeChangeView : rtdb.
Lemma i_makePrepareResponse : rtI makePrepareResponse.
Proof. intros s0. unfold makePrepareResponse. xs; fin. Qed.
Hint Resolve i_makePrepareResponse : rtdb.

Lemma slot_get tbl i o : 0 <= i -> nth_chk tbl (Z.to_nat i) = Some o -> slot tbl i = o.
Proof. intros Hi H. unfold slot. destruct (i <? 0) eqn:E; [lia|]. rewrite H. reflexivity. Qed.

(* gate site: a PrepareResponse names the hash of the payload in the primary's slot; all transactions present *)
Lemma g_sendPrepareResponse s0 : hasAllTransactions s0 = true -> U s0 ->
  hx s0 sendPrepareResponse (fun _ s tr => RI s0 s /\ trG G tr).
Proof.
  intros Hall Hu. unfold sendPrepareResponse, makePrepareResponse, StopTxFlow, broadcast, ask_unit. xs.
  split; [inv_fin|]. apply trG_cons; [gleaf|]. apply trG_cons; [|apply trG_nil].
  destruct a0. apply sel_Broadcast in Hc0. subst c0. unfold G, mk_payload. cbn.
  split; [|intros _; exact Hu].
  unfold RespGuard. cbn. split; [exact Hall|]. exists p. split; [reflexivity|].
  intros Hne. apply slot_get; [exact Hi|]. rewrite (nth_set_other _ _ _ _ _ Hl); [exact Hx|]. lia.
Qed.

(* makeCommit / makePreCommit return a payload of the right kind (the stored own one is typed by Inv) *)
Lemma t_makeCommit s0 : Inv s0 ->
  hx s0 (makeCommit cfg) (fun r s tr => RF s0 s /\ trG G tr /\ forall m, r = Some m -> p_type m = CommitT).
Proof.
  intros (_ & _ & I3 & _ & _). unfold makeCommit. xs.
  - split; [apply (R_refl RF)|split; [apply trG_nil|]]. intros m [= <-]. subst. eapply I3; eauto.
  - eapply x_rt; [apply f_MakeHeader|]. intros hb s1 n1 HR HT. cbn beta. xs.
    + split; [|split].
      * eapply (R_trans RF); [exact HR|]. unfold RF, RFr; cbn; repeat split; reflexivity.
      * apply trG_app; [exact HT|trg].
      * intros m [= <-]. reflexivity.
    + rewrite app_nil_r. split; [exact HR|split; [exact HT|discriminate]].
Qed.
Lemma t_makePreCommit s0 : Inv s0 ->
  hx s0 makePreCommit (fun r s tr => RF s0 s /\ trG G tr /\ forall m, r = Some m -> p_type m = PreCommitT).
Proof.
  intros (_ & I2 & _ & _ & _). unfold makePreCommit. xs.
  - split; [apply (R_refl RF)|split; [apply trG_nil|]]. intros m [= <-]. subst. eapply I2; eauto.
  - eapply x_rt; [apply f_CreatePreBlock|]. intros hb s1 n1 HR HT. cbn beta. xs.
    + split; [|split].
      * eapply (R_trans RF); [exact HR|]. unfold RF, RFr; cbn; repeat split; reflexivity.
      * apply trG_app; [exact HT|trg].
      * intros m [= <-]. reflexivity.
    + rewrite app_nil_r. split; [exact HR|split; [exact HT|discriminate]].
Qed.

Lemma CommitGuard_frame s0 s1 l : RF s0 s1 -> CommitGuard s0 -> CommitGuard (s1 <| CommitPayloads := l |>).
Proof.
  unfold RF, RFr, CommitGuard, prep_quorum, precommit_quorum, amev_on, hasAllTransactions, Mq, F, N. cbn.
  intros (E1 & E2 & E3 & E4 & E5 & E6 & E7 & E8 & E9 & E10 & E11 & _). rewrite E1, E2, E3, E4, E6, E7, E8, E9, E11. auto.
Qed.
Lemma PreCommitGuard_frame s0 s1 l : RF s0 s1 -> PreCommitGuard s0 -> PreCommitGuard (s1 <| PreCommitPayloads := l |>).
Proof.
  unfold RF, RFr, PreCommitGuard, prep_quorum, amev_on, hasAllTransactions, Mq, F, N. cbn.
  intros (E1 & E2 & E3 & E4 & E5 & E6 & E7 & E8 & _). rewrite E1, E2, E3, E6, E7, E8. auto.
Qed.

Lemma g_sendCommit s0 : Inv s0 -> U s0 -> CommitGuard s0 -> hx s0 (sendCommit cfg) (fun _ s tr => RI s0 s /\ trG G tr /\ BlockIndex s = BlockIndex s0).
Proof.
  intros HI Hu HG. unfold sendCommit. eapply x_call; [apply (t_makeCommit s0 HI)|].
  intros r s1 n1 (HR & HT & Hty). cbn beta. pose proof (RF_RI _ _ HR) as HRI. destruct r as [msg|].
  - specialize (Hty msg eq_refl). unfold broadcast. xs.
    split; [|split].
    + unfold RI, RIr. cbn. split; [|apply HRI]. intros _. pose proof (RI_Inv _ _ HRI HI) as (I1 & I2 & I3 & I4 & I5).
      unfold Inv. cbn. repeat split; auto. eapply tall_set; [exact I3| |eassumption]. intros p [= <-]. exact Hty.
    + apply trG_app; [exact HT|]. apply trG_cons; [|apply trG_nil].
      destruct a. apply sel_Broadcast in Hc. subst c. unfold G. rewrite p_type_set_idx, Hty.
      split; [eapply CommitGuard_frame; eauto|]. intros _. cbn. exact (RF_U _ _ HR Hu).
    + cbn. apply HR.
  - xs. rewrite app_nil_r. split; [exact HRI|split; [exact HT|apply HR]].
Qed.
Lemma g_sendPreCommit s0 : Inv s0 -> U s0 -> PreCommitGuard s0 -> hx s0 sendPreCommit (fun _ s tr => RI s0 s /\ trG G tr /\ BlockIndex s = BlockIndex s0).
Proof.
  intros HI Hu HG. unfold sendPreCommit. eapply x_call; [apply (t_makePreCommit s0 HI)|].
  intros r s1 n1 (HR & HT & Hty). cbn beta. pose proof (RF_RI _ _ HR) as HRI. destruct r as [msg|].
  - specialize (Hty msg eq_refl). unfold broadcast. xs.
    split; [|split].
    + unfold RI, RIr. cbn. split; [|apply HRI]. intros _. pose proof (RI_Inv _ _ HRI HI) as (I1 & I2 & I3 & I4 & I5).
      unfold Inv. cbn. repeat split; auto. eapply tall_set; [exact I2| |eassumption]. intros p [= <-]. exact Hty.
    + apply trG_app; [exact HT|]. apply trG_cons; [|apply trG_nil].
      destruct a. apply sel_Broadcast in Hc. subst c. unfold G. rewrite p_type_set_idx, Hty.
      split; [eapply PreCommitGuard_frame; eauto|]. intros _. cbn. exact (RF_U _ _ HR Hu).
    + cbn. apply HR.
  - xs. rewrite app_nil_r. split; [exact HRI|split; [exact HT|apply HR]].
Qed.

(* clearing a slot keeps the tables typed *)
Ltac clear_fin HR :=
  let HI := fresh in
  unfold RI, RIr; cbn; split; [|apply HR]; intros HI; pose proof (RI_Inv _ _ HR HI) as (?I1 & ?I2 & ?I3 & ?I4 & ?I5); unfold Inv; cbn; repeat split; auto;
  eapply tall_set; [ | | eassumption]; [eassumption|intros ? ?; discriminate].

Lemma i_verifyCommits : rtI (verifyCommitPayloadsAgainstHeader cfg).
Proof.
  unfold verifyCommitPayloadsAgainstHeader. apply rt_get_bind. intros s. apply rt_forM. intros i s0. xs.
  - eapply x_rt; [apply (toI _ f_MakeHeader)|]. intros hb s1 n1 HR HT. cbn beta. xs.
    + rewrite app_nil_r. split; auto.
    + split; [|rewrite app_nil_r; exact HT]. clear_fin HR.
    + rewrite app_nil_r. split; auto.
  - split; [apply (R_refl RI)|apply trG_nil].
  - split; [apply (R_refl RI)|apply trG_nil].
Qed.
Hint Resolve i_verifyCommits : rtdb.
Lemma i_verifyPreCommits : rtI verifyPreCommitPayloadsAgainstPreBlock.
Proof.
  unfold verifyPreCommitPayloadsAgainstPreBlock. apply rt_get_bind. intros s.
  destruct (negb (hasAllTransactions s)); [apply rt_ret|]. apply rt_forM. intros i s0. xs.
  - eapply x_rt; [apply (toI _ f_CreatePreBlock)|]. intros hb s1 n1 HR HT. cbn beta. xs.
    + rewrite app_nil_r. split; auto.
    + split; [|rewrite app_nil_r; exact HT]. clear_fin HR.
    + rewrite app_nil_r. split; auto.
  - split; [apply (R_refl RI)|apply trG_nil].
  - split; [apply (R_refl RI)|apply trG_nil].
Qed.
Hint Resolve i_verifyPreCommits : rtdb.

Lemma i_updateExistingPayloads msg : rtI (updateExistingPayloads cfg msg).
Proof.
  unfold updateExistingPayloads. apply rt_bind.
  - apply rt_modify. intros s. unfold RI, RIr. cbn. split; [|reflexivity]. intros (I1 & I2 & I3 & I4 & I5). unfold Inv. cbn. repeat split; auto.
    apply tall_map; [|exact I1]. intros o p. destruct o as [m|]; [|discriminate].
    destruct (mtype_eqb (p_type m) PrepareResponseT && negb (hash_eqb (resp_prephash m) (payload_hash msg))); [discriminate|auto].
  - intros _. rt_go leafG.
Qed.
Hint Resolve i_updateExistingPayloads : rtdb.

Lemma commit_quorum_frame s0 s1 : RF s0 s1 -> hasAllTransactions s0 = true -> Mq s0 <= count_view (ViewNumber s0) (CommitPayloads s0) -> commit_quorum s1.
Proof.
  unfold RF, RFr, commit_quorum, hasAllTransactions, Mq, F, N. intros (E1 & E2 & E3 & E4 & E5 & E6 & E7 & E8 & E9 & E10 & _).
  rewrite E2, E3, E6, E7, E10. auto.
Qed.

(* may decide: needs an undecided state *)
Lemma b_checkCommit s0 : Inv s0 -> U s0 -> hx s0 (checkCommit cfg) (fun _ s tr => Inv s /\ trG G tr).
Proof.
  intros HI Hu. unfold checkCommit. apply x_get.
  destruct (negb (hasAllTransactions s0)) eqn:Ea; [apply x_ret; split; [exact HI|apply trG_nil]|]. apply negb_false_iff in Ea.
  cbv zeta. destruct (count_view (ViewNumber s0) (CommitPayloads s0) <? Mq s0) eqn:Ec; [apply x_ret; split; [exact HI|apply trG_nil]|].
  apply Z.ltb_ge in Ec.
  eapply x_rt; [apply f_CreateBlock|]. intros b s1 n1 HR HT. cbn beta. pose proof (RI_Inv _ _ (RF_RI _ _ HR) HI) as I1.
  pose proof (commit_quorum_frame _ _ HR Ea Ec) as HQ. pose proof (RF_U _ _ HR Hu) as U1.
  xs.
  all: try (rewrite app_nil_r; split; [exact I1|exact HT]).
  all: match goal with
       | |- _ /\ _ => split; [try (unfold Inv in *; cbn; exact I1)|apply trG_app; [exact HT|]]
       end.
  all: try (apply trG_cons; [|apply trG_nil]).
  all: try (match goal with H : _ = Some _ |- G _ ?c => destruct c; try discriminate H; split; [exact HQ|exact U1] end).
Qed.

(* product of two preorders *)
Definition rand (R1 R2 : rel) : rel :=
  mkRel (fun a b => R1 a b /\ R2 a b) (fun s => conj (R_refl R1 s) (R_refl R2 s))
        (fun a b c H1 H2 => conj (R_trans R1 _ _ _ (proj1 H1) (proj1 H2)) (R_trans R2 _ _ _ (proj2 H1) (proj2 H2))).

(* the fields the amev commit gate reads; untouched by the verification of stored commits *)
Definition RGr (a b : nstate) : Prop :=
  BlockIndex b = BlockIndex a /\ ViewNumber b = ViewNumber a /\ Validators b = Validators a /\ MyIndex b = MyIndex a /\
  TransactionHashes b = TransactionHashes a /\ Transactions b = Transactions a /\
  PreparationPayloads b = PreparationPayloads a /\ PreCommitPayloads b = PreCommitPayloads a /\ preBlockProcessed b = preBlockProcessed a.
Lemma RGr_refl s : RGr s s. Proof. unfold RGr; repeat split; reflexivity. Qed.
Lemma RGr_trans a b c : RGr a b -> RGr b c -> RGr a c.
Proof. unfold RGr. intros H1 H2. decompose [and] H1. decompose [and] H2. repeat split; congruence. Qed.
Definition RG : rel := mkRel RGr RGr_refl RGr_trans.
Lemma RF_RG a b : RF a b -> RG a b.
Proof. unfold RF, RFr, RG, RGr. cbn. intros H. decompose [and] H. repeat split; assumption. Qed.

Lemma own_slot_spec tbl s0 :
  hx s0 (own_slot tbl) (fun r s tr => s = s0 /\ trG G tr /\ (r = true -> slot (tbl s0) (MyIndex s0) <> None)).
Proof.
  unfold own_slot, WatchOnly. xs.
  all: split; [reflexivity|split; [trg|]]; try discriminate.
  all: intros Hr; rewrite (slot_get _ _ _ Hi Hx); destruct x; [discriminate|discriminate Hr].
Qed.

Lemma g_verifyCommits : rt G (rand RG RI) (verifyCommitPayloadsAgainstHeader cfg).
Proof.
  unfold verifyCommitPayloadsAgainstHeader. apply rt_get_bind. intros s. apply rt_forM. intros i s0. xs.
  - eapply x_rt; [apply f_MakeHeader|]. intros hb s1 n1 HR HT. cbn beta. pose proof (RF_RI _ _ HR) as HRI. pose proof (RF_RG _ _ HR) as HRG. xs.
    + rewrite app_nil_r. split; [split|]; auto.
    + split; [split|rewrite app_nil_r; exact HT].
      * eapply (R_trans RG); [exact HRG|]. unfold RG, RGr; cbn; repeat split; reflexivity.
      * clear_fin HRI.
    + rewrite app_nil_r. split; [split|]; auto.
  - split; [apply (R_refl (rand RG RI))|apply trG_nil].
  - split; [apply (R_refl (rand RG RI))|apply trG_nil].
Qed.

Lemma precommit_quorum_frame s0 s1 : RG s0 s1 -> precommit_quorum s0 -> precommit_quorum s1.
Proof.
  unfold RG, RGr, precommit_quorum, hasAllTransactions, Mq, F, N. cbn. intros (E1 & E2 & E3 & E4 & E5 & E6 & E7 & E8 & E9).
  rewrite E2, E3, E5, E6, E8. auto.
Qed.

(* ---- step tactics for the manual proofs: the current state of the goal [hx s0 ..] has [Inv s0] (and maybe [U s0]) in context ---- *)
Ltac gk :=
  idtac; match goal with
  | |- G _ ?c =>
      match goal with
      | H : _ = Some ?a |- _ =>
          match type of H with context[c] =>
            first [ try (destruct a); apply sel_Broadcast in H; subst c; unfold mk_payload; cbn; split; [exact Logic.I|let Hne := fresh in intro Hne; exfalso; apply Hne; reflexivity]
                  | destruct c; try discriminate H; exact Logic.I ] end
      end
  end.
Ltac trs := rewrite ?app_nil_r; repeat first [ assumption | apply trG_nil | apply trG_app | apply trG_cons; [solve [gk]|] ].
(* call a helper with an rtI lemma: Inv and U of the current state are carried over *)
Ltac istep L :=
  lazymatch goal with |- hx ?s0 _ _ =>
    eapply x_rt; [apply L|];
    let a := fresh "r" in let s := fresh "s" in let n := fresh "n" in let HR := fresh "HR" in let HT := fresh "HT" in
    intros a s n HR HT; cbn beta;
    try (match goal with H : Inv s0 |- _ => pose proof (RI_Inv _ _ HR H) end);
    try (match goal with H : U s0 |- _ => pose proof (RI_U _ _ HR H) end)
  end.
Ltac istepd L :=
  lazymatch goal with |- hx ?s0 _ _ =>
    eapply x_rt; [apply L|];
    let a := fresh "r" in let s := fresh "s" in let n := fresh "n" in let HR := fresh "HR" in let HT := fresh "HT" in
    intros a s n HR HT; cbn beta;
    try (match goal with H : Inv s0 |- _ => pose proof (RI_Inv _ _ HR H) end);
    try (match goal with H : U s0 |- _ => pose proof (RI_U _ _ HR H) end);
    destruct a
  end.
Ltac ilast L :=
  lazymatch goal with |- hx ?s0 _ _ =>
    eapply x_rt_last; [apply L|];
    let a := fresh "r" in let s := fresh "s" in let n := fresh "n" in let HR := fresh "HR" in let HT := fresh "HT" in
    intros a s n HR HT;
    try (match goal with H : Inv s0 |- _ => pose proof (RI_Inv _ _ HR H) end);
    split; [assumption|trs]
  end.
Ltac kret := apply x_ret; split; [assumption|trs].

(* the tail of checkPreCommit once the pre-block has been processed *)
Definition cpc_tail : M unit :=
  ps <- PreCommitSent ;;
  if ps then
    verifyCommitPayloadsAgainstHeader cfg ;;; sendCommit cfg ;;; s <- get ;; changeTimer (timePerBlock s) ;;; checkCommit cfg
  else _ <- WatchOnly ;; ret tt.
Lemma g_cpc_tail s2 : amev_on cfg s2 = true -> Inv s2 -> U s2 -> precommit_quorum s2 -> preBlockProcessed s2 = true ->
  hx s2 cpc_tail (fun _ s tr => Inv s /\ trG G tr).
Proof.
  intros Ham HI Hu HQ Hpb. unfold cpc_tail. eapply x_call; [apply (own_slot_spec PreCommitPayloads s2)|].
  intros ps s n (-> & HT & Hown). cbn beta. destruct ps.
  - specialize (Hown eq_refl).
    eapply x_rt; [apply g_verifyCommits|]. intros [] s3 n3 [HG3 HI3] HT3. cbn beta.
    pose proof (RI_Inv _ _ HI3 HI) as I3. pose proof (RI_U _ _ HI3 Hu) as U3.
    assert (G3 : CommitGuard s3).
    { unfold CommitGuard. destruct HG3 as (E1 & E2 & E3 & E4 & E5 & E6 & E7 & E8 & E9).
      assert (Ea : amev_on cfg s3 = true) by (unfold amev_on in *; rewrite E1; exact Ham). rewrite Ea.
      split; [eapply precommit_quorum_frame; [|exact HQ]; unfold RG, RGr; cbn; repeat split; assumption|].
      split; [congruence|]. rewrite E8, E4. exact Hown. }
    eapply x_call; [apply (g_sendCommit s3 I3 U3 G3)|]. intros [] s4 n4 (HI4 & HT4 & _). cbn beta.
    pose proof (RI_Inv _ _ HI4 I3) as I4. pose proof (RI_U _ _ HI4 U3) as U4.
    apply x_get. istep (toI _ (f_changeTimer (timePerBlock s4))).
    eapply x_conseq; [apply b_checkCommit; assumption|]. cbn. intros [] s6 n6 (I6 & T6). split; [exact I6|trs].
  - istep (toI _ f_WatchOnly). kret.
Qed.

Lemma g_checkPreCommit s0 : amev_on cfg s0 = true -> Inv s0 -> U s0 ->
  hx s0 (checkPreCommit cfg) (fun _ s tr => Inv s /\ trG G tr).
Proof.
  intros Ham HI Hu. unfold checkPreCommit. apply x_get.
  destruct (negb (hasAllTransactions s0)) eqn:Ea; [kret|]. apply negb_false_iff in Ea.
  cbv zeta. destruct (count_view (ViewNumber s0) (PreCommitPayloads s0) <? Mq s0) eqn:Ec; [kret|].
  apply Z.ltb_ge in Ec. assert (HQ0 : precommit_quorum s0) by (split; auto).
  eapply x_rt; [apply f_CreatePreBlock|]. intros pb s1 n1 HR HT. cbn beta.
  pose proof (RF_RI _ _ HR) as HRI. pose proof (RF_RG _ _ HR) as HRG. pose proof (precommit_quorum_frame _ _ HRG HQ0) as HQ1.
  pose proof (RI_Inv _ _ HRI HI) as I1. pose proof (RI_U _ _ HRI Hu) as U1.
  assert (Ham1 : amev_on cfg s1 = true). { unfold amev_on in *. destruct HR as (E1 & _). rewrite E1. exact Ham. }
  destruct pb as [b|]; [|kret].
  apply x_get. fold cpc_tail.
  destruct (negb (preBlockProcessed s1)) eqn:Ep.
  - apply negb_true_iff in Ep. apply x_assoc. apply x_ask. intros err c Hc. destruct err.
    + apply x_ret_bind. cbn [negb]. apply x_ret.
      split; [exact I1|]. apply trG_app; [exact HT|]. apply trG_cons; [|apply trG_nil].
      destruct c; try discriminate Hc. unfold G. auto.
    + apply x_assoc. apply x_modify. apply x_ret_bind. cbn [negb].
      set (s2 := s1 <| preBlockProcessed := true |>).
      eapply x_conseq; [apply (g_cpc_tail s2)|].
      * unfold amev_on, s2 in *. cbn. exact Ham1.
      * unfold Inv, s2 in *. cbn. exact I1.
      * unfold U, s2 in *. cbn. exact U1.
      * unfold precommit_quorum, hasAllTransactions, Mq, F, N, s2 in *. cbn. exact HQ1.
      * reflexivity.
      * cbn. intros [] s n (HIs & HTs). split; [exact HIs|].
        apply trG_app; [exact HT|]. apply trG_cons; [|exact HTs]. destruct c; try discriminate Hc. unfold G. auto.
  - apply negb_false_iff in Ep. apply x_ret_bind. cbn [negb].
    eapply x_conseq; [apply (g_cpc_tail s1 Ham1 I1 U1 HQ1 Ep)|].
    cbn. intros [] s n (HIs & HTs). split; [exact HIs|trs].
Qed.

Lemma existsb_is_req_eq l :
  existsb (fun o => match o with Some p => mtype_eqb (p_type p) PrepareRequestT | None => false end) l = existsb is_req l.
Proof. reflexivity. Qed.

(* the second half of checkPrepare, from the state in which the quorum test is made *)
Definition cp_tail : M unit :=
  s <- get ;;
  if negb (hasAllTransactions s) then ret tt else
  let cnt := count_view (ViewNumber s) (PreparationPayloads s) in
  let hasRequest := existsb (fun o => match o with Some p => mtype_eqb (p_type p) PrepareRequestT | None => false end) (PreparationPayloads s) in
  if hasRequest && (cnt >=? Mq s) then
    if amev_on cfg s then
      sendPreCommit ;;; s <- get ;; changeTimer (timePerBlock s) ;;; checkPreCommit cfg
    else
      sendCommit cfg ;;; s <- get ;; changeTimer (timePerBlock s) ;;; checkCommit cfg
  else ret tt.

Lemma g_cp_tail s0 : Inv s0 -> U s0 -> hx s0 cp_tail (fun _ s tr => Inv s /\ trG G tr).
Proof.
  intros HI Hu. unfold cp_tail. apply x_get.
  destruct (negb (hasAllTransactions s0)) eqn:Ea; [kret|]. apply negb_false_iff in Ea.
  cbv zeta. rewrite existsb_is_req_eq.
  destruct (existsb is_req (PreparationPayloads s0) && (count_view (ViewNumber s0) (PreparationPayloads s0) >=? Mq s0)) eqn:Eq; [|kret].
  apply andb_true_iff in Eq. destruct Eq as [Er Ec]. rewrite Z.geb_leb in Ec. apply Z.leb_le in Ec.
  assert (HQ : prep_quorum s0) by (repeat split; auto).
  destruct (amev_on cfg s0) eqn:Ham.
  - eapply x_call; [apply (g_sendPreCommit s0 HI Hu)|]. { split; auto. }
    intros [] s1 n1 (HI1 & HT1 & HB1). cbn beta. pose proof (RI_Inv _ _ HI1 HI) as I1. pose proof (RI_U _ _ HI1 Hu) as U1.
    apply x_get.
    eapply x_rt; [apply (f_changeTimer (timePerBlock s1))|]. intros [] s2 n2 HR2 HT2. cbn beta.
    assert (Ham2 : amev_on cfg s2 = true). { unfold amev_on in *. destruct HR2 as (E & _). rewrite E, HB1. exact Ham. }
    pose proof (RF_RI _ _ HR2) as HRI2.
    eapply x_conseq; [apply (g_checkPreCommit s2 Ham2 (RI_Inv _ _ HRI2 I1) (RI_U _ _ HRI2 U1))|].
    cbn. intros [] s3 n3 (HI3 & HT3). split; [exact HI3|trs].
  - eapply x_call; [apply (g_sendCommit s0 HI Hu)|]. { unfold CommitGuard. rewrite Ham. exact HQ. }
    intros [] s1 n1 (HI1 & HT1 & _). cbn beta. pose proof (RI_Inv _ _ HI1 HI) as I1. pose proof (RI_U _ _ HI1 Hu) as U1.
    apply x_get. istep (toI _ (f_changeTimer (timePerBlock s1))).
    eapply x_conseq; [apply b_checkCommit; assumption|]. cbn. intros [] s3 n3 (I3 & T3). split; [exact I3|trs].
Qed.

Lemma b_checkPrepare s0 : Inv s0 -> U s0 -> hx s0 (checkPrepare cfg) (fun _ s tr => Inv s /\ trG G tr).
Proof.
  intros HI Hu. unfold checkPrepare. apply x_get. fold cp_tail.
  destruct (negb (lastBlockIndex s0 =? BlockIndex s0) || negb (lastBlockView s0 =? ViewNumber s0)).
  - apply x_assoc. unfold ask_now. apply x_ask. intros t c Hc. apply x_modify.
    eapply x_conseq; [apply g_cp_tail|].
    + unfold Inv in *. cbn. exact HI.
    + unfold U in *. cbn. exact Hu.
    + cbn. intros [] s n (HIs & HTs). split; [exact HIs|]. apply trG_cons; [|exact HTs]. destruct c; try discriminate Hc. exact Logic.I.
  - apply x_ret_bind. apply (g_cp_tail s0 HI Hu).
Qed.

(* ================= invariant-carrying layers =================
   kI x : safe from every state with typed tables (the function protects its gated callbacks itself);
   kB x : needs an undecided state at entry (it may hand the block over or broadcast). *)
Notation kI := (kp Inv G).
Definition kB {A} (x : M A) : Prop := forall s0, Inv s0 -> U s0 -> hx s0 x (fun _ s tr => Inv s /\ trG G tr).
Lemma k_of_i {A} (x : M A) : rtI x -> kI x.
Proof. apply rt_kp. intros a b Ha Hab. exact (RI_Inv _ _ Hab Ha). Qed.
Lemma k_of_f {A} (x : M A) : rtF x -> kI x.
Proof. intros H. apply k_of_i, toI, H. Qed.
Lemma b_of_k {A} (x : M A) : kI x -> kB x.
Proof. intros H s0 HI _. apply (H s0 HI). Qed.
Hint Resolve k_of_i k_of_f : kpdb.
Hint Resolve f_WatchOnly f_RequestSentOrReceived f_own_slot f_PreCommitSent f_CommitSent f_ResponseSent f_ViewChanging f_StopTxFlow
     f_changeTimer f_MakeHeader f_MakePreHeader f_CreateBlock f_CreatePreBlock f_makeCommit f_makePreCommit f_extendTimer : kpdb.
Hint Resolve i_subscribe i_unsubscribe i_GetPrimaryIndex i_getTimestamp i_Fill i_rtt i_processMissingTx i_NotAccepting
     i_sendRecoveryMessage i_makeChangeView i_makePrepareResponse i_verifyCommits i_verifyPreCommits i_updateExistingPayloads : kpdb.

Ltac leafK :=
  idtac; match goal with
  | H : Inv ?s |- Inv _ =>
      unfold Inv, empty_tbl in *; cbn; destruct H as (?I1 & ?I2 & ?I3 & ?I4 & ?I5);
      repeat match goal with |- context[if ?b then _ else _] => destruct b end; cbn;
      repeat split; first [assumption | apply tall_empty]
  | |- G _ ?c =>
      match goal with
      | H : _ = Some ?a |- _ =>
          match type of H with context[c] =>
            first [ try (destruct a); apply sel_Broadcast in H; subst c; unfold mk_payload; cbn; split; [exact Logic.I|let Hne := fresh in intro Hne; exfalso; apply Hne; reflexivity]
                  | destruct c; try discriminate H; exact Logic.I ] end
      end
  end.

(* kp-style steps inside manual proofs (only Inv is carried) *)
Ltac kstep L := eapply x_kp; [apply L | assumption | let a := fresh "r" in let s := fresh "s" in let n := fresh "n" in let HI := fresh "HI" in let HT := fresh "HT" in intros a s n HI HT; cbn beta].
Ltac klast L := eapply x_kp_last; [apply L | assumption | let a := fresh "r" in let s := fresh "s" in let n := fresh "n" in let HI := fresh "HI" in let HT := fresh "HT" in intros a s n HI HT; split; [assumption|trs]].

Lemma keep_changeviews_spec P n : forall i view cvs last s0,
  hx s0 (keep_changeviews i n view cvs last) (fun l s tr => s = s0 /\ tr = [] /\ (tall P cvs -> tall P last -> tall P l)).
Proof.
  induction n as [|n IH]; intros i view cvs last s0; cbn [keep_changeviews].
  - apply x_ret. auto.
  - xs. eapply x_conseq; [apply IH|]. cbn. intros l2 s tr (-> & -> & Hl2). repeat split; auto. intros Hc Hla. apply Hl2; auto.
    eapply tall_set; [exact Hla| |eassumption]. intros p Hp. destruct x as [q|]; [|discriminate]. destruct (cv_newview q >=? view); [|discriminate].
    injection Hp as <-. eapply Hc; eauto.
Qed.

Lemma k_reset view ts : kI (reset cfg view ts).
Proof.
  unfold reset. apply kp_bind; [kp_go leafK|intros _].
  apply kp_bind; [kp_go leafK|intros _].
  apply kp_bind.
  - destruct (view =? 0).
    + kp_go leafK.
    + apply kp_get_bind. intros s Hs. eapply x_call; [apply (keep_changeviews_spec (fun p => p_type p = ChangeViewT))|].
      intros l s1 n1 (-> & -> & Hl). cbn beta. apply x_modify_last. split; [|apply trG_nil].
      destruct Hs as (I1 & I2 & I3 & I4 & I5). unfold Inv. cbn. repeat split; auto.
  - intros _. kp_go leafK.
Qed.
Hint Resolve k_reset : kpdb.

Lemma b_sendRecoveryRequest : kB sendRecoveryRequest.
Proof.
  intros s0 HI Hu. unfold sendRecoveryRequest. istepd (toI _ f_RequestSentOrReceived); apply x_get.
  - destruct (negb (hasAllTransactions s)); cbn [andb].
    + istep i_processMissingTx. unfold ask_now. apply x_ask. intros t c Hc. apply x_get. unfold broadcast. apply x_get.
      unfold ask_unit. apply x_ask_last. intros [] c2 Hc2. apply sel_Broadcast in Hc2. subst c2.
      split; [assumption|]. apply trG_app; [assumption|]. apply trG_app; [assumption|]. apply trG_cons; [gk|]. apply trG_cons; [|apply trG_nil].
      apply G_broadcast_ungated; [repeat split; discriminate|assumption].
    + apply x_ret_bind. unfold ask_now. apply x_ask. intros t c Hc. apply x_get. unfold broadcast. apply x_get.
      unfold ask_unit. apply x_ask_last. intros [] c2 Hc2. apply sel_Broadcast in Hc2. subst c2.
      split; [assumption|]. apply trG_app; [assumption|]. apply trG_cons; [gk|]. apply trG_cons; [|apply trG_nil].
      apply G_broadcast_ungated; [repeat split; discriminate|assumption].
  - cbn [andb]. apply x_ret_bind. unfold ask_now. apply x_ask. intros t c Hc. apply x_get. unfold broadcast. apply x_get.
    unfold ask_unit. apply x_ask_last. intros [] c2 Hc2. apply sel_Broadcast in Hc2. subst c2.
    split; [assumption|]. apply trG_app; [assumption|]. apply trG_cons; [gk|]. apply trG_cons; [|apply trG_nil].
    apply G_broadcast_ungated; [repeat split; discriminate|assumption].
Qed.

Definition TsOK (s : nstate) : Prop := u64 (lastBlockTimestamp s + cfg_inc cfg) <= Timestamp s.
Lemma fill_ts force s0 : hx s0 (Fill cfg force) (fun r s tr => (r = true -> TsOK s) /\ (r = false -> cfg_dyn cfg = true)).
Proof.
  unfold Fill, getTimestamp, ask_now. xs.
  all: try match goal with |- _ /\ _ => split; let Hr := fresh "Hr" in intros Hr; try discriminate Hr end.
  all: try match goal with H : (_ && _ && _) = true |- cfg_dyn cfg = true => apply andb_true_iff in H; destruct H as [H _]; apply andb_true_iff in H; destruct H as [H _]; exact H end.
  all: unfold TsOK.
  all: match goal with |- context[if ?b then _ else _] => destruct b eqn:E1 end; cbn [Timestamp lastBlockTimestamp set].
  - apply Z.gtb_lt in E1. cbn [Timestamp lastBlockTimestamp set] in E1. lia.
  - lia.
Qed.
Definition ReqM (s : nstate) (m : payload) : Prop :=
  m = mk_payload s (B0 (BPrepareRequest (Timestamp s) (Nonce s) (TransactionHashes s))) /\ TsOK s.
Lemma t_makePrepareRequest force s0 :
  hx s0 (makePrepareRequest cfg force) (fun r s tr => RI s0 s /\ trG G tr /\ (forall m, r = Some m -> ReqM s m) /\ (r = None -> cfg_dyn cfg = true)).
Proof.
  unfold makePrepareRequest. eapply x_call; [apply x_conj; [apply (i_Fill force)|apply (fill_ts force)]|].
  intros ok s1 n1 ((R1 & T1) & Ts & Td). cbn beta. destruct ok; cbn [negb].
  - apply x_get. apply x_ret. rewrite app_nil_r. split; [exact R1|split; [exact T1|split; [|discriminate]]]. intros m [= <-]. split; [reflexivity|auto].
  - apply x_ret. rewrite app_nil_r. split; [exact R1|split; [exact T1|split; [discriminate|auto]]].
Qed.

Lemma b_sendPrepareRequest force : kB (sendPrepareRequest cfg force).
Proof.
  intros s0 H0 U0. unfold sendPrepareRequest.
  eapply x_call; [apply (t_makePrepareRequest force s0)|]. intros m1 s1 n1 (R1 & T1 & Ty1 & Dy1). cbn beta.
  pose proof (RI_Inv _ _ R1 H0) as I1. pose proof (RI_U _ _ R1 U0) as U1.
  eapply x_call with (Qx := fun r s tr => Inv s /\ U s /\ trG G tr /\ forall m, r = Some m -> ReqM s m).
  { destruct m1 as [x|].
    - apply x_ret. split; [exact I1|split; [exact U1|split; [apply trG_nil|]]]. intros m [= <-]. apply Ty1. reflexivity.
    - istep (i_subscribe (Dy1 eq_refl)).
      eapply x_conseq; [apply (t_makePrepareRequest force s)|]. cbn. intros r0 s2 n2 (Ra & Ta & Tya & _).
      split; [exact (RI_Inv _ _ Ra H)|split; [exact (RI_U _ _ Ra H1)|split; [trs|exact Tya]]]. }
  intros m2 s2 n2 (I2 & U2 & T2 & Ty2). cbn beta. destruct m2 as [msg|].
  - destruct (Ty2 msg eq_refl) as [Em Ts2]. assert (Tyq : p_type msg = PrepareRequestT) by (rewrite Em; reflexivity).
    unfold unsubscribeFromTransactions at 1. apply x_modify.
    apply x_get. apply x_tset. intros l Hi Hl. apply x_modify.
    lazymatch goal with |- hx ?st _ _ => set (s4 := st) end.
    assert (I4 : Inv s4). { destruct I2 as (J1 & J2 & J3 & J4 & J5).
      unfold Inv, s4. cbn. repeat split; auto.
      eapply tall_set; [exact J1| |exact Hl]. intros p [= <-]. left. exact Tyq. }
    assert (U4 : U s4) by (unfold U, s4 in *; cbn; assumption).
    unfold broadcast at 1. apply x_assoc. apply x_get. unfold ask_unit at 1. apply x_ask. intros [] c Hc.
    apply sel_Broadcast in Hc. subst c.
    assert (Gb : G s4 (CBroadcast (msg <| p_idx := u16 (MyIndex s4) |>))).
    { unfold G. rewrite p_type_set_idx, Tyq. split; [|intros _; exact U4].
      unfold ReqGuard. rewrite p_body_set_idx. rewrite Em. unfold s4. cbn. repeat split. exact Ts2. }
    istep (i_updateExistingPayloads msg).
    unfold ask_now at 1. apply x_ask. intros t c Hc. apply x_modify. apply x_get.
    lazymatch goal with |- hx ?st _ _ => set (s6 := st) end.
    assert (I6 : Inv s6) by (unfold Inv, s6 in *; cbn; assumption).
    assert (U6 : U s6) by (unfold U, s6 in *; cbn; assumption).
    cbv zeta. istep (toI _ (f_changeTimer (if ViewNumber s6 =? 0 then wrap64 (shl64 (timePerBlock s6) (u8 (ViewNumber s6 + 1)) - timePerBlock s6) else shl64 (timePerBlock s6) (u8 (ViewNumber s6 + 1))))).
    eapply x_conseq; [apply b_checkPrepare; assumption|]. cbn. intros [] s8 n8 (I8 & T8).
    split; [exact I8|].
    repeat (apply trG_app; auto). apply trG_cons; [exact Gb|]. apply trG_app; [assumption|]. apply trG_cons; [destruct c; try discriminate Hc; exact Logic.I|].
    apply trG_app; auto.
  - apply x_get. ilast (toI _ (f_changeTimer (wrap64 (maxTimePerBlock s2 - timePerBlock s2)))).
Qed.

Lemma t_makeChangeView ts r s0 : Inv s0 ->
  hx s0 (makeChangeView ts r) (fun m s tr => RI s0 s /\ Inv s /\ trG G tr /\ p_type m = ChangeViewT).
Proof.
  intros H0. unfold makeChangeView. xs.
  assert (I1 : Inv (s0 <| ChangeViewPayloads := l |>)).
  { destruct H0 as (J1 & J2 & J3 & J4 & J5). unfold Inv. cbn. repeat split; auto.
    eapply tall_set; [exact J4| |exact Hl]. intros p [= <-]. reflexivity. }
  split; [split; [intros _; exact I1|reflexivity]|split; [exact I1|split; [apply trG_nil|reflexivity]]].
Qed.

Section Rec.
Variable ic : Z -> Z -> M unit.
Hypothesis Hic : forall v ts, kI (ic v ts).

Ltac cur_inv := match goal with |- hx ?s _ _ => match goal with H : Inv s |- _ => H end end.

Lemma b_checkChangeView view : kB (checkChangeView ic view).
Proof.
  intros s0 H0 U0. unfold checkChangeView. apply x_get.
  destruct (ViewNumber s0 >=? view); [kret|]. cbv zeta.
  match goal with |- context[if ?b then _ else _] => destruct b end; [kret|].
  istep (toI _ f_WatchOnly).
  eapply x_call with (Qx := fun _ s tr => Inv s /\ trG G tr).
  { destruct r; [kret|]. apply x_get. apply x_tget. intros own Hi Hown.
    destruct own as [m|]; [|kret].
    destruct (cv_newview m <? view); [|kret].
    unfold ask_now. apply x_ask. intros t c Hc.
    eapply x_call; [apply (t_makeChangeView (u64 t) CVChangeAgreement); assumption|]. intros msg s2 n2 (R2 & I2 & T2 & Ty2). cbn beta.
    unfold broadcast. apply x_get. unfold ask_unit. apply x_ask_last. intros [] c2 Hc2. apply sel_Broadcast in Hc2. subst c2.
    split; [exact I2|]. apply trG_cons; [gk|]. apply trG_app; [exact T2|]. apply trG_cons; [|apply trG_nil].
    apply G_broadcast_ungated; [rewrite Ty2; repeat split; discriminate|]. eapply RI_U; [exact R2|assumption]. }
  intros [] s2 n2 (I2 & T2). cbn beta. apply x_get.
  eapply x_kp_last; [apply (Hic view (lastBlockTimestamp s2))|exact I2|]. intros [] s3 n3 I3 T3.
  split; [exact I3|trs].
Qed.

Lemma b_sendChangeView reason : kB (sendChangeView ic reason).
Proof.
  intros s0 H0 U0. unfold sendChangeView. istepd (toI _ f_WatchOnly); [kret|].
  apply x_get. cbv zeta. istep (toI _ (f_changeTimer (shl64 (timePerBlock s) (u8 (u8 (ViewNumber s + 1) + 1))))).
  match goal with |- context[if ?b then _ else _] => destruct b end.
  - eapply x_conseq; [apply b_sendRecoveryRequest; assumption|]. cbn. intros [] s2 n2 (I2 & T2). split; [exact I2|trs].
  - unfold ask_now. apply x_ask. intros t c Hc.
    eapply x_call; [apply t_makeChangeView; assumption|]. intros msg s2 n2 (R2 & I2 & T2 & Ty2). cbn beta.
    assert (U2 : U s2) by (eapply RI_U; [exact R2|assumption]).
    istep (toI _ f_StopTxFlow).
    unfold broadcast at 1. apply x_assoc. apply x_get. unfold ask_unit at 1. apply x_ask. intros [] c2 Hc2. apply sel_Broadcast in Hc2. subst c2.
    eapply x_conseq; [apply b_checkChangeView; assumption|]. cbn. intros [] s4 n4 (I4 & T4). split; [exact I4|].
    rewrite ?app_nil_r.
    repeat first [ assumption | apply trG_nil | apply trG_app
                 | apply trG_cons; [first [solve [gk] | apply G_broadcast_ungated; [rewrite Ty2; repeat split; discriminate|assumption]]|] ].
Qed.

Lemma t_createAndCheckBlock s0 : Inv s0 -> U s0 ->
  hx s0 (createAndCheckBlock cfg ic) (fun ok s tr => Inv s /\ trG G tr /\ (ok = true -> RF s0 s)).
Proof.
  intros H0 U0. unfold createAndCheckBlock. apply x_get.
  eapply x_call with (Qx := fun _ s tr => RF s0 s /\ trG G tr).
  { destruct (amev_on cfg s0).
    - eapply x_rt; [apply f_CreatePreBlock|]. intros b s1 n1 HR HT. cbn beta. apply x_ask_last. intros ok c Hc. split; [exact HR|]. trs.
    - eapply x_rt; [apply f_CreateBlock|]. intros b s1 n1 HR HT. cbn beta. apply x_ask_last. intros ok c Hc. split; [exact HR|]. trs. }
  intros ok s1 n1 (HR & HT). cbn beta. pose proof (RI_Inv _ _ (RF_RI _ _ HR) H0) as I1. pose proof (RF_U _ _ HR U0) as U1. destruct ok.
  - apply x_ret. rewrite app_nil_r. split; [exact I1|split; [exact HT|auto]].
  - eapply x_call; [apply (b_sendChangeView CVTxInvalid s1 I1 U1)|]. intros [] s2 n2 (I2 & T2). cbn beta.
    apply x_ret. split; [exact I2|split; [trs|discriminate]].
Qed.

(* hasAllTransactions is kept by everything between the block check and the response *)
Definition keepsAll {A} (x : M A) : Prop := forall s0, hx s0 x (fun _ s tr => RI s0 s /\ trG G tr /\ hasAllTransactions s = hasAllTransactions s0).
Lemma hasAll_RF a b : RF a b -> hasAllTransactions b = hasAllTransactions a.
Proof. intros (_ & _ & _ & _ & _ & E6 & E7 & _). unfold hasAllTransactions. rewrite E6, E7. reflexivity. Qed.
Lemma keepsAll_f {A} (x : M A) : rtF x -> keepsAll x.
Proof. intros H s0. eapply x_conseq; [apply H|]. cbn. intros a s n (HR & HT). split; [exact (RF_RI _ _ HR)|split; [exact HT|apply hasAll_RF, HR]]. Qed.
Lemma keepsAll_verifyPreCommits : keepsAll verifyPreCommitPayloadsAgainstPreBlock.
Proof.
  intros s0. unfold verifyPreCommitPayloadsAgainstPreBlock. apply x_get.
  destruct (negb (hasAllTransactions s0)); [apply x_ret; split; [apply (R_refl RI)|split; [apply trG_nil|reflexivity]]|].
  eapply x_conseq; [apply (x_forM (fun s n => RI s0 s /\ trG G n /\ hasAllTransactions s = hasAllTransactions s0)) with (n := [])|].
  - intros i s n _ (Rs & Tn & Hs). xs.
    + eapply x_rt; [apply f_CreatePreBlock|]. intros hb s1 n1 HR HT. cbn beta. pose proof (R_trans RI _ _ _ Rs (RF_RI _ _ HR)) as R1. pose proof (hasAll_RF _ _ HR) as H1. xs.
      * rewrite app_nil_r. split; [exact R1|split; [trs|congruence]].
      * rewrite app_nil_r. split; [|split; [trs|unfold hasAllTransactions in *; cbn; congruence]].
        eapply (R_trans RI); [exact R1|]. clear_fin (R_refl RI s1).
      * rewrite app_nil_r. split; [exact R1|split; [trs|congruence]].
    + rewrite app_nil_r. auto.
    + rewrite app_nil_r. auto.
  - split; [apply (R_refl RI)|split; [apply trG_nil|reflexivity]].
  - cbn. intros _ s n H. exact H.
Qed.

(* call a keepsAll helper: carries Inv, U and the hasAllTransactions value *)
Ltac astep L :=
  lazymatch goal with |- hx ?s0 _ _ =>
    eapply x_call; [apply (L s0)|];
    let a := fresh "r" in let s := fresh "s" in let n := fresh "n" in let HR := fresh "HR" in let HT := fresh "HT" in let HA := fresh "HA" in
    intros a s n (HR & HT & HA); cbn beta;
    try (match goal with H : Inv s0 |- _ => pose proof (RI_Inv _ _ HR H) end);
    try (match goal with H : U s0 |- _ => pose proof (RI_U _ _ HR H) end)
  end.

Ltac astepd L :=
  lazymatch goal with |- hx ?s0 _ _ =>
    eapply x_call; [apply (L s0)|];
    let a := fresh "r" in let s := fresh "s" in let n := fresh "n" in let HR := fresh "HR" in let HT := fresh "HT" in let HA := fresh "HA" in
    intros a s n (HR & HT & HA); cbn beta;
    try (match goal with H : Inv s0 |- _ => pose proof (RI_Inv _ _ HR H) end);
    try (match goal with H : U s0 |- _ => pose proof (RI_U _ _ HR H) end);
    destruct a
  end.

Lemma b_addTransaction t : kB (addTransaction cfg ic t).
Proof.
  intros s0 H0 U0. unfold addTransaction. apply x_modify.
  lazymatch goal with |- hx ?st _ _ => set (s1 := st) end.
  assert (I1 : Inv s1) by (unfold Inv, s1 in *; cbn; exact H0).
  assert (U1 : U s1) by (unfold U, s1 in *; cbn; exact U0).
  apply x_get. destruct (negb (hasAllTransactions s1)) eqn:Ea; [kret|]. apply negb_false_iff in Ea.
  destruct (IsPrimary s1); [kret|].
  astepd (keepsAll_f _ f_WatchOnly); [kret|].
  eapply x_call; [apply t_createAndCheckBlock; assumption|]. intros ok s2 n2 (I2 & T2 & F2). cbn beta.
  destruct ok; cbn [negb]; [|kret]. specialize (F2 eq_refl).
  assert (U2 : U s2) by (eapply RF_U; [exact F2|assumption]).
  astep keepsAll_verifyPreCommits. astep (keepsAll_f _ (f_extendTimer 2)).
  eapply x_call; [apply g_sendPrepareResponse; [|assumption]|].
  { rewrite HA1, HA0, (hasAll_RF _ _ F2), HA. exact Ea. }
  intros [] s5 n5 (R5 & T5). cbn beta.
  eapply x_conseq; [apply b_checkPrepare; [eapply RI_Inv; [exact R5|assumption]|eapply RI_U; [exact R5|assumption]]|].
  cbn. intros [] s6 n6 (I6 & T6). split; [exact I6|trs].
Qed.

Lemma b_onPrepareRequest msg : kB (onPrepareRequest cfg ic msg).
Proof.
  intros s0 H0 U0. unfold onPrepareRequest. istepd (toI _ f_RequestSentOrReceived).
  { istep (toI _ f_ViewChanging). kret. }
  apply x_get. destruct (negb (ViewNumber s =? p_view msg)); [kret|].
  istep (i_GetPrimaryIndex s (ViewNumber s)). destruct (negb (p_idx msg =? r)); [kret|].
  apply x_ask. intros ok c Hc. destruct ok; cbn [negb].
  2:{ eapply x_conseq; [apply (b_sendChangeView CVBlockRejectedByPolicy); assumption|]. cbn. intros [] s2 n2 (I2 & T2). split; [exact I2|trs]. }
  istep (toI _ (f_extendTimer 2)).
  destruct (p_body msg) as [b|ps] eqn:Eb; [|apply x_panic].
  destruct b; try apply x_panic.
  assert (Ty : p_type msg = PrepareRequestT) by (unfold p_type; rewrite Eb; reflexivity).
  apply x_modify.
  lazymatch goal with |- hx ?st _ _ => set (s3 := st) end.
  assert (I3 : Inv s3) by (unfold Inv, s3 in *; cbn; assumption).
  assert (U3 : U s3) by (unfold U, s3 in *; cbn; assumption).
  istep i_processMissingTx. istep (i_updateExistingPayloads msg).
  apply x_get. apply x_tset. intros l Hi Hl. apply x_modify.
  lazymatch goal with |- hx ?st _ _ => set (s6 := st) end.
  assert (I6 : Inv s6). { match goal with H : Inv ?s |- _ => match type of Hl with context[s] => destruct H as (J1 & J2 & J3 & J4 & J5) end end.
    unfold Inv, s6. cbn. repeat split; auto.
    eapply tall_set; [exact J1| |exact Hl]. intros p [= <-]. left. exact Ty. }
  assert (U6 : U s6) by (unfold U, s6 in *; cbn; assumption).
  apply x_get. destruct (negb (hasAllTransactions s6)) eqn:Ea; [kret|]. apply negb_false_iff in Ea.
  eapply x_call; [apply t_createAndCheckBlock; assumption|]. intros ok s7 n7 (I7 & T7 & F7). cbn beta.
  destruct ok; cbn [negb]; [|kret]. specialize (F7 eq_refl).
  assert (U7 : U s7) by (eapply RF_U; [exact F7|assumption]).
  astepd (keepsAll_f _ f_WatchOnly); [kret|].
  apply x_get.
  eapply x_call with (Qx := fun _ s tr => Inv s /\ U s /\ trG G tr).
  { match goal with |- context[IsPrimary ?x] => destruct (IsPrimary x) end.
    - apply x_ret. split; [assumption|split; [assumption|apply trG_nil]].
    - eapply x_conseq; [apply g_sendPrepareResponse; [|assumption]|].
      { rewrite HA, (hasAll_RF _ _ F7). exact Ea. }
      cbn. intros [] s9 n9 (R9 & T9). split; [eapply RI_Inv; [exact R9|assumption]|split; [eapply RI_U; [exact R9|assumption]|exact T9]]. }
  intros [] s9 n9 (I9 & U9 & T9). cbn beta.
  eapply x_conseq; [apply b_checkPrepare; assumption|].
  cbn. intros [] s10 n10 (I10 & T10). split; [exact I10|trs].
Qed.

Lemma k_onRecoveryRequest msg : kI (onRecoveryRequest cfg msg).
Proof. unfold onRecoveryRequest. kp_go leafK. Qed.

Ltac set_cur x := lazymatch goal with |- hx ?st _ _ => set (x := st) end.
Ltac inv_of Hl := match goal with H : Inv ?s |- _ => match type of Hl with context[s] => H end end.

Lemma b_onPrepareResponse msg : p_type msg = PrepareResponseT -> kB (onPrepareResponse cfg msg).
Proof.
  intros Ty s0 H0 U0. unfold onPrepareResponse. apply x_get. destruct (negb (ViewNumber s0 =? p_view msg)); [kret|].
  istep (i_GetPrimaryIndex s0 (ViewNumber s0)). destruct (p_idx msg =? r); [kret|].
  apply x_tget. intros m Hi Hm.
  eapply x_call with (Qx := fun _ s1 tr => Inv s1 /\ U s1 /\ trG G tr).
  { destruct (isSome m); [apply x_ret; split; [assumption|split; [assumption|trs]]|]. istep (toI _ f_ViewChanging). apply x_get.
    apply x_ret; split; [assumption|split; [assumption|trs]]. }
  intros skip s1 n1 (I1 & U1 & T1). cbn beta. destruct skip. { istep (toI _ f_ViewChanging). kret. }
  apply x_ask. intros ok c Hc. destruct ok; cbn [negb]; [|kret].
  apply x_get. apply x_tset. intros l Hil Hl. apply x_modify. set_cur s2.
  assert (I2 : Inv s2). { destruct I1 as (J1 & J2 & J3 & J4 & J5). unfold Inv, s2. cbn. repeat split; auto.
    eapply tall_set; [exact J1| |exact Hl]. intros p [= <-]. right. exact Ty. }
  assert (U2 : U s2) by (unfold U, s2 in *; cbn; assumption).
  apply x_get. apply x_tget. intros req Hir Hreq.
  eapply x_call with (Qx := fun _ s tr => Inv s /\ U s /\ trG G tr).
  { destruct req as [rq|]; [|apply x_ret; split; [assumption|split; [assumption|trs]]].
    destruct (p_body rq) as [b|]. 2: apply x_panic.
    destruct b; try apply x_panic.
    destruct (negb (hash_eqb (resp_prephash msg) (payload_hash rq))). 2: (apply x_ret; split; [assumption|split; [assumption|trs]]).
    apply x_tset. intros l2 Hi2 Hl2. apply x_modify. apply x_ret. split; [|split; [unfold U in *; cbn; assumption|trs]].
    destruct I2 as (J1 & J2 & J3 & J4 & J5). unfold Inv. cbn. repeat split; auto. eapply tall_set; [exact J1| |exact Hl2]. intros ? ?; discriminate. }
  intros mismatch s3 n3 (I3 & U3 & T3). cbn beta. destruct mismatch; [kret|].
  apply x_get.
  eapply x_call with (Qx := fun _ s tr => Inv s /\ U s /\ trG G tr).
  { destruct (IsPrimary s3 && isSome (prepareSentTime s3) && negb (recovering s3)). 2: (apply x_ret; split; [assumption|split; [assumption|trs]]).
    unfold ask_now. apply x_ask. intros t c2 Hc2. destruct (prepareSentTime s3). 2: (apply x_ret; split; [assumption|split; [assumption|trs]]).
    eapply x_rt_last; [apply (i_rtt (sat64 (t - z)))|]. intros [] s4 n4 R4 T4.
    split; [exact (RI_Inv _ _ R4 I3)|split; [exact (RI_U _ _ R4 U3)|trs]]. }
  intros [] s4 n4 (I4 & U4 & T4). cbn beta.
  istep (toI _ (f_extendTimer 2)). istepd (toI _ f_WatchOnly); [kret|].
  istepd (toI _ f_CommitSent); [kret|]. apply x_get.
  eapply x_call with (Qx := fun _ s tr => Inv s /\ U s /\ trG G tr).
  { match goal with |- context[if ?b then _ else _] => destruct b end.
    - eapply x_rt_last; [apply (toI _ f_PreCommitSent)|]. intros ps sa na Ra Ta.
      split; [eapply RI_Inv; [exact Ra|assumption]|split; [eapply RI_U; [exact Ra|assumption]|trs]].
    - apply x_ret; split; [assumption|split; [assumption|trs]]. }
  intros ps s8 n8 (I8 & U8 & T8). cbn beta. destruct ps; [kret|].
  istepd (toI _ f_RequestSentOrReceived); [|kret].
  eapply x_conseq; [apply b_checkPrepare; assumption|]. cbn. intros [] sz nz (Iz & Tz). split; [exact Iz|trs].
Qed.

Lemma RI_amev s0 s1 : RF s0 s1 -> amev_on cfg s1 = amev_on cfg s0.
Proof. intros (E1 & _). unfold amev_on. rewrite E1. reflexivity. Qed.

Lemma b_onChangeView msg : p_type msg = ChangeViewT -> kB (onChangeView cfg ic msg).
Proof.
  intros Ty s0 H0 U0. unfold onChangeView. apply x_get. cbv zeta.
  destruct (cv_newview msg <=? ViewNumber s0); [apply (k_onRecoveryRequest msg s0 H0)|].
  istepd (toI _ f_CommitSent).
  - apply x_ret_bind. cbn [orb]. ilast i_sendRecoveryMessage.
  - istepd (toI _ f_PreCommitSent); cbn [orb]; [ilast i_sendRecoveryMessage|].
    apply x_get. apply x_tget. intros m Hi Hm.
    match goal with |- context[if ?b then _ else _] => destruct b end; [kret|].
    apply x_tset. intros l Hil Hl. apply x_modify. set_cur s2.
    assert (I2 : Inv s2). { let H := inv_of Hl in destruct H as (J1 & J2 & J3 & J4 & J5). unfold Inv, s2. cbn. repeat split; auto.
      eapply tall_set; [exact J4| |exact Hl]. intros p [= <-]. exact Ty. }
    assert (U2 : U s2) by (unfold U, s2 in *; cbn; assumption).
    eapply x_conseq; [apply (b_checkChangeView (cv_newview msg)); assumption|]. cbn. intros [] s3 n3 (I3 & T3). split; [exact I3|trs].
Qed.

Lemma b_onCommit msg : p_type msg = CommitT -> kB (onCommit cfg msg).
Proof.
  intros Ty s0 H0 U0. unfold onCommit. apply x_get. apply x_tget. intros ex Hi Hex. destruct (isSome ex); [kret|].
  apply x_tset. intros l Hil Hl. apply x_modify. set_cur s1.
  assert (I1 : Inv s1). { destruct H0 as (J1 & J2 & J3 & J4 & J5). unfold Inv, s1. cbn. repeat split; auto.
    eapply tall_set; [exact J3| |exact Hl]. intros p [= <-]. exact Ty. }
  assert (U1 : U s1) by (unfold U, s1 in *; cbn; assumption).
  destruct (negb (ViewNumber s0 =? p_view msg)); [kret|].
  apply x_ask. intros ok c Hc. destruct ok; cbn [negb].
  - istep (toI _ (f_extendTimer 4)). istepd (toI _ f_MakeHeader); [|kret].
    apply x_get. apply x_tget. intros pub Hip Hpub.
    destruct (block_verify pub b (commit_sig msg)).
    + eapply x_conseq; [apply b_checkCommit; assumption|]. cbn. intros [] s4 n4 (I4 & T4). split; [exact I4|trs].
    + apply x_tset. intros l2 Hi2 Hl2. apply x_modify_last. split; [|trs].
      let H := inv_of Hl2 in destruct H as (J1 & J2 & J3 & J4 & J5). unfold Inv. cbn. repeat split; auto. eapply tall_set; [exact J3| |exact Hl2]. intros ? ?; discriminate.
  - apply x_get. apply x_tset. intros l2 Hi2 Hl2. apply x_modify_last. split; [|trs].
    destruct I1 as (J1 & J2 & J3 & J4 & J5). unfold Inv. cbn. repeat split; auto. eapply tall_set; [exact J3| |exact Hl2]. intros ? ?; discriminate.
Qed.

Lemma b_onPreCommit msg s0 : p_type msg = PreCommitT -> Inv s0 -> U s0 -> amev_on cfg s0 = true ->
  hx s0 (onPreCommit cfg msg) (fun _ s tr => Inv s /\ trG G tr).
Proof.
  intros Ty H0 U0 Ham. unfold onPreCommit. apply x_get. apply x_tget. intros ex Hi Hex. destruct (isSome ex); [kret|].
  apply x_tset. intros l Hil Hl. apply x_modify. set_cur s1.
  assert (I1 : Inv s1). { destruct H0 as (J1 & J2 & J3 & J4 & J5). unfold Inv, s1. cbn. repeat split; auto.
    eapply tall_set; [exact J2| |exact Hl]. intros p [= <-]. exact Ty. }
  assert (U1 : U s1) by (unfold U, s1 in *; cbn; assumption).
  assert (Ham1 : amev_on cfg s1 = true) by (unfold amev_on, s1 in *; cbn; exact Ham).
  destruct (negb (ViewNumber s0 =? p_view msg)); [kret|].
  apply x_ask. intros ok c Hc. destruct ok; cbn [negb].
  - eapply x_rt; [apply (f_extendTimer 4)|]. intros [] s2 n2 HR2 HT2. cbn beta.
    pose proof (RI_Inv _ _ (RF_RI _ _ HR2) I1) as I2. pose proof (RF_U _ _ HR2 U1) as U2.
    assert (Ham2 : amev_on cfg s2 = true) by (rewrite (RI_amev _ _ HR2); exact Ham1).
    apply x_get. destruct (negb (hasAllTransactions s2)); [kret|].
    eapply x_rt; [apply f_CreatePreBlock|]. intros pb s3 n3 HR3 HT3. cbn beta.
    pose proof (RI_Inv _ _ (RF_RI _ _ HR3) I2) as I3. pose proof (RF_U _ _ HR3 U2) as U3.
    assert (Ham3 : amev_on cfg s3 = true) by (rewrite (RI_amev _ _ HR3); exact Ham2).
    destruct pb as [b|]; [|kret]. apply x_get. apply x_tget. intros pub Hip Hpub.
    destruct (preblock_verify pub b (precommit_data msg)).
    + eapply x_conseq; [apply (g_checkPreCommit s3 Ham3 I3 U3)|]. cbn. intros [] s4 n4 (HI4 & HT4). split; [exact HI4|trs].
    + apply x_tset. intros l2 Hi2 Hl2. apply x_modify_last. split; [|trs].
      destruct I3 as (J1 & J2 & J3 & J4 & J5). unfold Inv. cbn. repeat split; auto. eapply tall_set; [exact J2| |exact Hl2]. intros ? ?; discriminate.
  - apply x_get. apply x_tset. intros l2 Hi2 Hl2. apply x_modify_last. split; [|trs].
    destruct I1 as (J1 & J2 & J3 & J4 & J5). unfold Inv. cbn. repeat split; auto. eapply tall_set; [exact J2| |exact Hl2]. intros ? ?; discriminate.
Qed.

Lemma k_cache_addMessage m : kI (cache_addMessage m).
Proof. unfold cache_addMessage. kp_go leafK. Qed.
Hint Resolve k_cache_addMessage k_onRecoveryRequest : kpdb.

Definition mtype_eq_dec (a b : mtype) : {a = b} + {a <> b}.
Proof. decide equality. Defined.
Lemma mtype_eqb_eq a b : mtype_eqb a b = true <-> a = b.
Proof. unfold mtype_eqb. rewrite Z.eqb_eq. split; [apply mtype_code_inj|intros ->; reflexivity]. Qed.

(* OnReceive protects its dispatch: after a decision only recovery requests get through *)
Definition dispatch_ok (d : payload -> M unit) : Prop :=
  forall msg s0, Inv s0 -> (U s0 \/ p_type msg = RecoveryRequestT) -> hx s0 (d msg) (fun _ s tr => Inv s /\ trG G tr).
Lemma k_receive_common d msg : dispatch_ok d -> kI (receive_common d msg).
Proof.
  intros Hd s0 H0. unfold receive_common. apply x_get.
  destruct (p_idx msg >=? N s0); [kret|]. destruct (p_height msg <? BlockIndex s0); [kret|].
  match goal with |- context[if ?b then _ else _] => destruct b end; [apply (k_cache_addMessage msg s0 H0)|].
  apply x_tget. intros hv Hi Hhv.
  eapply x_call with (Qx := fun _ s tr => Inv s /\ trG G tr).
  { match goal with |- context[if ?b then _ else _] => destruct b end; [|kret].
    apply x_tset. intros l Hil Hl. apply x_modify_last. split; [unfold Inv in *; cbn; exact H0|trs]. }
  intros [] s1 n1 (I1 & T1). cbn beta. apply x_get.
  destruct (blockProcessed s1 && negb (mtype_eqb (p_type msg) RecoveryRequestT)) eqn:E; [kret|].
  eapply x_conseq; [apply (Hd msg s1 I1)|].
  - apply andb_false_iff in E. destruct E as [E|E]; [left; exact E|right]. apply negb_false_iff in E. apply mtype_eqb_eq. exact E.
  - cbn. intros [] s2 n2 (I2 & T2). split; [exact I2|trs].
Qed.

Lemma b_dispatch0 : dispatch_ok (dispatch0 cfg ic).
Proof.
  intros msg s0 H0 Hor. unfold dispatch0. destruct (p_type msg) eqn:Ty.
  all: try (destruct Hor as [U0|E]; [|discriminate E]).
  - apply b_onChangeView; auto.
  - apply b_onPrepareRequest; auto.
  - apply b_onPrepareResponse; auto.
  - apply b_onCommit; auto.
  - apply x_get. destruct (amev_on cfg s0) eqn:Ea; [apply b_onPreCommit; auto|kret].
  - apply (k_onRecoveryRequest msg s0 H0).
  - kret.
Qed.

Lemma k_ask_recv m : kI (ask_recv m).
Proof. unfold ask_recv. kp_go leafK. Qed.
Hint Resolve k_ask_recv : kpdb.
Lemma k_nestedReceive0 m : kI (nestedReceive0 cfg ic m).
Proof. unfold nestedReceive0. apply kp_bind; [apply k_ask_recv|intros _]. apply k_receive_common. apply b_dispatch0. Qed.
Hint Resolve k_nestedReceive0 : kpdb.

Lemma k_onRecoveryMessage msg : kI (onRecoveryMessage cfg ic msg).
Proof. unfold onRecoveryMessage. destruct (p_body msg); [apply kp_panic|]. cbv zeta. kp_go leafK. Qed.

Lemma b_dispatch : dispatch_ok (dispatch cfg ic).
Proof.
  intros msg s0 H0 Hor. unfold dispatch. destruct (p_type msg) eqn:Ty; try (apply b_dispatch0; [exact H0|rewrite Ty; exact Hor]).
  apply (k_onRecoveryMessage msg s0 H0).
Qed.
Lemma k_OnReceive msg : kI (OnReceive cfg ic msg).
Proof. unfold OnReceive. apply k_receive_common. apply b_dispatch. Qed.
Hint Resolve k_OnReceive : kpdb.

Lemma k_replay_map n : forall entries, kI (replay_map cfg ic n entries).
Proof.
  induction n as [|n IH]; intros entries; destruct entries as [|e es]; cbn [replay_map]; try apply kp_ret.
  apply kp_bind; [kp_go leafK|intros k]. destruct (assoc_get (e :: es) k); [|apply kp_ret].
  apply kp_bind; [apply k_OnReceive|intros _; apply IH].
Qed.
End Rec.

Lemma k_ic_body ic view ts : (forall v t, kI (ic v t)) -> kI (initializeConsensus_body cfg ic view ts).
Proof. intros Hic. unfold initializeConsensus_body. kp_go leafK. all: apply k_replay_map; exact Hic. Qed.
Lemma k_initializeConsensus fuel : forall view ts, kI (initializeConsensus cfg fuel view ts).
Proof. induction fuel as [|f IH]; intros view ts; cbn [initializeConsensus]; [apply kp_oof|]. apply k_ic_body. exact IH. Qed.
Lemma k_init view ts : kI (init cfg view ts). Proof. apply k_initializeConsensus. Qed.

(* ---- API ---- *)
Ltac set_cur x := lazymatch goal with |- hx ?st _ _ => set (x := st) end.
(* reset at view 0 leaves the cache alone and clears the decision flag *)
Lemma reset0_spec ts s0 : hx s0 (reset cfg 0 ts) (fun _ s _ => cache s = cache s0 /\ blockProcessed s = false).
Proof.
  unfold reset. cbn [Z.eqb]. unfold unsubscribeFromTransactions, GetPrimaryIndex. xs.
  all: cbn; auto.
Qed.

Lemma init_unfold v ts : init cfg v ts = initializeConsensus_body cfg (initializeConsensus cfg 257) v ts.
Proof. reflexivity. Qed.

(* the initialisation made by Start (fresh cache: nothing to replay) ends undecided *)
Lemma start_init ts s1 : Inv s1 -> cache s1 = [] -> hx s1 (init cfg 0 ts) (fun _ s tr => Inv s /\ trG G tr /\ U s).
Proof.
  intros I1 C1. rewrite init_unfold. generalize (initializeConsensus cfg 257) as ic. intros ic.
  unfold initializeConsensus_body.
  eapply x_call; [apply (x_conj _ _ _ _ (k_reset 0 ts s1 I1) (reset0_spec ts s1))|].
  intros [] s2 n2 ((I2 & T2) & (C2 & B2)). cbn beta. rewrite C1 in C2.
  apply x_get.
  eapply x_call with (Qx := fun _ s tr => s = s2 /\ trG G tr).
  { destruct (IsPrimary s2); [apply x_ret; split; [reflexivity|apply trG_nil]|]. unfold WatchOnly. xs; split; auto; trs. }
  intros [] s3 n3 (-> & T3). cbn beta.
  unfold StopTxFlow at 1. unfold ask_unit at 1. apply x_ask. intros [] c Hc. apply x_modify. apply x_get.
  cbn [cache set]. rewrite C2. cbn [filter assoc_get]. apply x_ret_bind.
  set_cur s4.
  assert (I4 : Inv s4) by (unfold Inv, s4 in *; cbn; exact I2).
  assert (U4 : U s4) by (unfold U, s4; cbn; exact B2).
  istepd (toI _ f_WatchOnly); [apply x_ret; split; [assumption|split; [trs|assumption]]|].
  apply x_get.
  eapply x_call with (Qx := fun _ s5 tr => Inv s5 /\ U s5 /\ trG G tr).
  { match goal with |- context[if ?b then _ else _] => destruct b end.
    - unfold ask_now. apply x_ask. intros t c2 Hc2. apply x_ret. split; [assumption|split; [assumption|trs]].
    - apply x_ret. split; [assumption|split; [assumption|trs]]. }
  intros timeout s5 n5 (I5 & U5 & T5). cbn beta.
  eapply x_rt_last; [apply (f_changeTimer timeout)|]. intros [] s6 n6 R6 T6.
  split; [exact (RI_Inv _ _ (RF_RI _ _ R6) I5)|split; [trs|exact (RF_U _ _ R6 U5)]].
Qed.

Lemma k_Start ts : kI (Start cfg ts).
Proof.
  intros s0 H0. unfold Start. apply x_modify. set_cur s1.
  assert (I1 : Inv s1) by (unfold Inv, s1 in *; cbn; exact H0).
  eapply x_call; [apply (start_init ts s1 I1 eq_refl)|]. intros [] s2 n2 (I2 & T2 & U2). cbn beta.
  apply x_get. destruct (IsPrimary s2); [|kret].
  istepd (toI _ f_WatchOnly); [kret|].
  eapply x_conseq; [apply (b_sendPrepareRequest true); assumption|]. cbn. intros [] s4 n4 (I4 & T4). split; [exact I4|trs].
Qed.
Lemma k_Reset ts : kI (Reset cfg ts). Proof. apply k_init. Qed.

Lemma k_OnTransaction t : kI (OnTransaction cfg t).
Proof.
  intros s0 H0. unfold OnTransaction. apply x_get. destruct (negb (IsBackup s0)); [kret|].
  kstep (k_of_i _ i_NotAccepting). destruct r; [kret|].
  kstep (k_of_f _ f_RequestSentOrReceived). destruct (negb r); [kret|].
  kstep (k_of_f _ f_ResponseSent). destruct r0; [kret|].
  kstep (k_of_f _ f_PreCommitSent). destruct r0; [kret|].
  kstep (k_of_f _ f_CommitSent). destruct r0; [kret|].
  apply x_get. destruct (blockProcessed s4) eqn:Eb; cbn [orb]; [kret|].
  destruct (zlen (MissingTransactions s4) =? 0); [kret|]. cbv zeta.
  match goal with |- context[if ?b then _ else _] => destruct b end; [kret|].
  apply x_modify. set_cur s5.
  assert (I5 : Inv s5) by (unfold Inv, s5 in *; cbn; assumption).
  assert (U5 : U s5) by (unfold U, s5; cbn; exact Eb).
  eapply x_conseq; [apply (b_addTransaction (init cfg) k_init t s5 I5 U5)|]. cbn. intros [] s6 n6 (I6 & T6). split; [exact I6|trs].
Qed.

Lemma k_onTimeout h v force : kI (onTimeout cfg h v force).
Proof.
  intros s0 H0. unfold onTimeout. eapply x_rt; [apply (toI _ f_WatchOnly)|]. intros wo s1 n1 R1 T1. cbn beta.
  pose proof (RI_Inv _ _ R1 H0) as I1. apply x_get.
  destruct wo; cbn [orb]; [kret|]. destruct (blockProcessed s1) eqn:Eb; [kret|].
  assert (U1 : U s1) by exact Eb.
  match goal with |- context[if ?b then _ else _] => destruct b end; [kret|].
  eapply x_call with (Qx := fun _ s tr => Inv s /\ U s /\ trG G tr).
  { destruct (IsPrimary s1); [|apply x_ret; split; [assumption|split; [assumption|trs]]].
    eapply x_rt_last; [apply (toI _ f_RequestSentOrReceived)|]. intros rs s2 n2 R2 T2.
    split; [exact (RI_Inv _ _ R2 I1)|split; [exact (RI_U _ _ R2 U1)|trs]]. }
  intros rs s2 n2 (I2 & U2 & T2). cbn beta.
  match goal with |- context[if ?b then _ else _] => destruct b end.
  { eapply x_conseq; [apply b_sendPrepareRequest; assumption|]. cbn. intros [] s3 n3 (I3 & T3). split; [exact I3|trs]. }
  match goal with |- context[if ?b then _ else _] => destruct b end; [|kret].
  istepd (toI _ f_CommitSent).
  - apply x_ret_bind. cbn [orb]. istep i_sendRecoveryMessage. apply x_get. ilast (toI _ (f_changeTimer (shl64 (timePerBlock s3) 1))).
  - istepd (toI _ f_PreCommitSent); cbn [orb].
    + istep i_sendRecoveryMessage. apply x_get. ilast (toI _ (f_changeTimer (shl64 (timePerBlock s4) 1))).
    + apply x_get.
      eapply x_call with (Qx := fun _ s tr => Inv s /\ U s /\ trG G tr).
      { match goal with |- context[if ?b then _ else _] => destruct b eqn:Edyn end; [|apply x_ret; split; [assumption|split; [assumption|trs]]].
        assert (Hdyn : cfg_dyn cfg = true) by (apply andb_true_iff in Edyn; destruct Edyn as [Edyn _]; apply andb_true_iff in Edyn; destruct Edyn as [_ Edyn]; exact Edyn).
        destruct force.
        - istep (toI _ (f_changeTimer (shl64 (timePerBlock s3) 1))). istep i_unsubscribe. apply x_ret; split; [assumption|split; [assumption|trs]].
        - destruct (negb (txSubscriptionOn s3)); [|apply x_ret; split; [assumption|split; [assumption|trs]]].
          apply x_ask. intros txx c Hc. destruct (zlen txx =? 0); [|apply x_ret; split; [assumption|split; [assumption|trs]]].
          istep (i_subscribe Hdyn). apply x_get.
          match goal with |- hx ?st (bind (changeTimer ?d) _) _ => istep (toI _ (f_changeTimer d)) end.
          apply x_ret; split; [assumption|split; [assumption|trs]]. }
      intros stop s5 n5 (I5 & U5 & T5). cbn beta. destruct stop; [kret|].
      eapply x_conseq; [apply (b_sendChangeView (init cfg) k_init CVTimeout); assumption|]. cbn. intros [] s6 n6 (I6 & T6). split; [exact I6|trs].
Qed.
Lemma k_OnTimeout h v : kI (OnTimeout cfg h v). Proof. apply k_onTimeout. Qed.
Lemma k_OnNewTransaction : kI (OnNewTransaction cfg).
Proof.
  intros s0 H0. unfold OnNewTransaction. apply x_get. destruct (negb (txSubscriptionOn s0)); [kret|].
  apply x_ask. intros h c Hc. apply x_ask. intros v c2 Hc2.
  eapply x_conseq; [apply (k_onTimeout h v true s0 H0)|]. cbn. intros [] s n (I1 & T1). split; [exact I1|trs].
Qed.
Lemma k_run_event e : kI (run_event cfg e).
Proof.
  destruct e; cbn [run_event].
  - apply k_Start. - apply k_Reset. - apply k_OnReceive. apply k_init. - apply k_OnTimeout. - apply k_OnTransaction. - apply k_OnNewTransaction.
Qed.

Lemma Inv_fresh : Inv fresh_state.
Proof. unfold Inv, fresh_state. cbn. repeat split; intros i p H; destruct i; discriminate. Qed.

(* every gated callback of every API call from every state with typed tables satisfies its gate *)
Theorem gates_step st ev sc st' tr : Inv st -> step cfg st ev sc = Ok (st', tr) -> Inv st' /\ trG G tr.
Proof.
  intros HI. unfold step. pose proof (k_run_event ev st HI (mkM st sc []) eq_refl) as H.
  destruct (run_event cfg ev (mkM st sc [])) as [[a m]| | | |]; try discriminate.
  destruct H as (new & Ht & Hs & HI' & HT). cbn in Ht. destruct (script m); [|discriminate]. intros [= <- <-]. rewrite Ht. auto.
Qed.

(* over whole histories: all states reached from the fresh instance have typed tables and all traces are gated *)
Inductive Reach : nstate -> Prop :=
| Reach0 : Reach fresh_state
| ReachS st ev sc st' tr : Reach st -> step cfg st ev sc = Ok (st', tr) -> Reach st'.
Theorem gates_reach st : Reach st -> Inv st.
Proof. induction 1 as [|st ev sc st' tr HR IH Hs]; [apply Inv_fresh|]. apply (gates_step _ _ _ _ _ IH Hs). Qed.
Theorem gates_history st ev sc st' tr : Reach st -> step cfg st ev sc = Ok (st', tr) -> trG G tr.
Proof. intros HR Hs. apply (gates_step _ _ _ _ _ (gates_reach _ HR) Hs). Qed.
End Gates.

(* ---- readable corollaries (per gated callback) ---- *)
Section Corollaries.
Variable cfg : config.
Lemma gate_at st ev sc st' tr s c : Reach cfg st -> step cfg st ev sc = Ok (st', tr) -> In (s, c) tr -> G cfg s c.
Proof. intros HR Hs Hin. pose proof (gates_history cfg _ _ _ _ _ HR Hs) as HT. unfold trG in HT. rewrite Forall_forall in HT. apply (HT (s, c) Hin). Qed.

Theorem response_gate st ev sc st' tr s p : Reach cfg st -> step cfg st ev sc = Ok (st', tr) ->
  In (s, CBroadcast p) tr -> p_type p = PrepareResponseT -> RespGuard s p.
Proof. intros HR Hs Hin Ty. pose proof (gate_at _ _ _ _ _ _ _ HR Hs Hin) as [H _]. rewrite Ty in H. exact H. Qed.
Theorem commit_gate st ev sc st' tr s p : Reach cfg st -> step cfg st ev sc = Ok (st', tr) ->
  In (s, CBroadcast p) tr -> p_type p = CommitT -> CommitGuard cfg s.
Proof. intros HR Hs Hin Ty. pose proof (gate_at _ _ _ _ _ _ _ HR Hs Hin) as [H _]. rewrite Ty in H. exact H. Qed.
Theorem precommit_gate st ev sc st' tr s p : Reach cfg st -> step cfg st ev sc = Ok (st', tr) ->
  In (s, CBroadcast p) tr -> p_type p = PreCommitT -> PreCommitGuard cfg s.
Proof. intros HR Hs Hin Ty. pose proof (gate_at _ _ _ _ _ _ _ HR Hs Hin) as [H _]. rewrite Ty in H. exact H. Qed.
Theorem request_gate st ev sc st' tr s p : Reach cfg st -> step cfg st ev sc = Ok (st', tr) ->
  In (s, CBroadcast p) tr -> p_type p = PrepareRequestT -> ReqGuard cfg s p.
Proof. intros HR Hs Hin Ty. pose proof (gate_at _ _ _ _ _ _ _ HR Hs Hin) as [H _]. rewrite Ty in H. exact H. Qed.
Theorem broadcast_undecided st ev sc st' tr s p : Reach cfg st -> step cfg st ev sc = Ok (st', tr) ->
  In (s, CBroadcast p) tr -> p_type p <> RecoveryMessageT -> blockProcessed s = false.
Proof. intros HR Hs Hin Ty. pose proof (gate_at _ _ _ _ _ _ _ HR Hs Hin) as [_ H]. exact (H Ty). Qed.
Theorem processblock_gate st ev sc st' tr s h e : Reach cfg st -> step cfg st ev sc = Ok (st', tr) ->
  In (s, CProcessBlock h e) tr -> commit_quorum s /\ blockProcessed s = false.
Proof. intros HR Hs Hin. exact (gate_at _ _ _ _ _ _ _ HR Hs Hin). Qed.
Theorem processpreblock_gate st ev sc st' tr s h e : Reach cfg st -> step cfg st ev sc = Ok (st', tr) ->
  In (s, CProcessPreBlock h e) tr -> amev_on cfg s = true /\ precommit_quorum s /\ preBlockProcessed s = false.
Proof. intros HR Hs Hin. exact (gate_at _ _ _ _ _ _ _ HR Hs Hin). Qed.
Theorem timer_gate st ev sc st' tr s h v d : Reach cfg st -> step cfg st ev sc = Ok (st', tr) ->
  In (s, CTimerReset h v d) tr -> h = BlockIndex s /\ v = ViewNumber s.
Proof. intros HR Hs Hin. exact (gate_at _ _ _ _ _ _ _ HR Hs Hin). Qed.
Theorem subscribe_gate st ev sc st' tr s : Reach cfg st -> step cfg st ev sc = Ok (st', tr) ->
  In (s, CSubscribe) tr -> cfg_dyn cfg = true.
Proof. intros HR Hs Hin. exact (gate_at _ _ _ _ _ _ _ HR Hs Hin). Qed.
Theorem newblock_gate st ev sc st' tr s ok : Reach cfg st -> step cfg st ev sc = Ok (st', tr) ->
  In (s, CNewBlock ok) tr -> amev_on cfg s = true -> preBlockProcessed s = true.
Proof. intros HR Hs Hin. exact (gate_at _ _ _ _ _ _ _ HR Hs Hin). Qed.
End Corollaries.
