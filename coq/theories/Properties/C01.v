(* C01 Agreement.  What is proved, and what is not:
   - [agreement_from_certificates]: for every validator list, every set of at most F = (N-1)/3 faulty
     keys and ANY behaviour of those keys, two accepted blocks of one height are equal PROVIDED every accepted block is backed
     by M distinct validators whose honest members signed exactly that block (Certificate) and an honest key signs at most
     one block per height (OneSign).  The proof is quorum intersection (pigeonhole on lists), for every N.
   - the node model delivers the counting half of Certificate for every reachable state (Properties/C02.v) and the commit
     gate (Properties/C04.v); it does NOT deliver "each counted signature verifies against that block" when a commit was
     stored before the block could be built - that is known finding D1 (a concrete fork is replayed against the real code
     by the harness: known_findings.json D1f/D1fa), so the unconditional statement is false of the code and is not claimed. *)
From Coq Require Import List Arith.
From DbftV Require Import Agreement Gates Replay D1.
Local Open Scope nat_scope.

Theorem agreement_from_certificates (node bhash : Type) (V byz : nat -> list nat) (honest_key : nat -> Prop)
  (accepts : node -> nat -> bhash -> Prop) (signed : nat -> nat -> bhash -> Prop) :
  (forall h, NoDup (byz h) /\ length (byz h) <= (length (V h) - 1) / 3 /\ forall k, In k (V h) -> ~ honest_key k -> In k (byz h)) ->
  (forall h, 1 <= length (V h)) ->
  (forall k, honest_key k \/ ~ honest_key k) ->
  (forall n h b, accepts n h b ->
     exists S, NoDup S /\ incl S (V h) /\ length (V h) - (length (V h) - 1) / 3 <= length S /\
               forall k, In k S -> honest_key k -> signed k h b) ->
  (forall k h b b', honest_key k -> signed k h b -> signed k h b' -> b = b') ->
  forall n n' h b b', accepts n h b -> accepts n' h b' -> b = b'.
Proof. exact (agreement node bhash V honest_key byz accepts signed). Qed.
Print Assumptions agreement_from_certificates.

(* the Certificate premise is not delivered by the node: a block is handed over with fewer than M verifying commits
   (the model-level witness of known finding D1; the fork it enables between three honest nodes and one equivocating
   primary is replayed on the real library by `verifh fork`, known findings D1f/D1fa) *)
Theorem certificate_premise_refuted_at_node_level :
  exists cfg st ev sc st' tr s, Reach cfg st /\ step cfg st ev sc = Ok (st', tr) /\ In s (handed_over_at tr) /\ (valid_commits s < Mq s)%Z.
Proof. exact (ex_intro _ d1_cfg (refutes_sound d1_cfg d1 d1_refutes)). Qed.
Print Assumptions certificate_premise_refuted_at_node_level.
