(* C17 The bundled simulation keeps extending its chain.
   DriverShape.v is regenerated from internal/simulation/main.go on every run; the theorem below needs the shipped loop
   to run the re-initialisation check after every event kind, which is what the generated flags say (by reflexivity). *)
From Coq Require Import List Arith.
From DbftV Require Import Driver DriverShape.
Import ListNotations.

Definition shipped : shape :=
  {| sh_after_timer := reset_check_after_timer_event; sh_after_message := reset_check_after_message_event; sh_ledger := processblock_advances_ledger |}.

Theorem shipped_loop_drives_the_library_by_its_contract :
  calls_start = true /\ timer_case_calls_ontimeout = true /\ message_case_calls_onreceive = true /\ good shipped /\
  timer_case_passes_timer_epoch = true.   (* OnTimeout is given the height and view the timer was armed for *)
Proof. exact (conj eq_refl (conj eq_refl (conj eq_refl (conj (conj eq_refl (conj eq_refl eq_refl)) eq_refl)))). Qed.
Print Assumptions shipped_loop_drives_the_library_by_its_contract.

(* for every start height, every sequence of timer / message events and every choice of which of them complete a block:
   the ledger grows by exactly the number of completed blocks and the node is never left waiting for a Reset *)
Theorem simulation_extends_chain_as_often_as_the_library_decides h0 es :
  let s0 := {| ledger := h0; blockIndex := S h0; decided := false |} in
  ledger (fold_left (step shipped) es s0) = h0 + decisions shipped s0 es /\ decided (fold_left (step shipped) es s0) = false.
Proof. exact (driver_extends_chain shipped h0 es (proj1 (proj2 (proj2 (proj2 shipped_loop_drives_the_library_by_its_contract))))). Qed.
Print Assumptions simulation_extends_chain_as_often_as_the_library_decides.

(* the defect repaired by the fix: commit (D6): without the check after an event kind the chain stops at the first block
   completed by such an event *)
Theorem loop_without_check_stalls sh h0 es : sh_after_timer sh = false -> sh_ledger sh = true ->
  Forall (fun e => fst e = Timer) es ->
  ledger (fold_left (step sh) es (step sh {| ledger := h0; blockIndex := S h0; decided := false |} (Timer, true))) = S h0.
Proof. exact (stalls_without_check_after_timer sh h0 es). Qed.
Print Assumptions loop_without_check_stalls.
