(* C02 Decision certificate. Proved here: the counting clause and the "accepted block is the proposal" clause for every
   reachable state. The signature clause is false
   for the faithful model (known findings D1/D1p/D2: payloads stored before the proposal are never verified); the
   refutation is replayed on the real code by the corpus scenarios of every check run (DESIGN.md C02). *)
From Coq Require Import ZArith List.
From DbftV Require Import Gates P02.
Open Scope Z_scope.

(* a block is handed to the application only while the node holds commits of its current view in at least M slots and
   every transaction of the proposal *)
Theorem block_handed_over_only_with_M_commits cfg st ev sc st' tr s h e :
  Reach cfg st -> step cfg st ev sc = Ok (st', tr) -> In (s, CProcessBlock h e) tr ->
  hasAllTransactions s = true /\ Mq s <= count_view (ViewNumber s) (CommitPayloads s).
Proof. exact (fun HR Hs Hin => proj1 (processblock_gate cfg st ev sc st' tr s h e HR Hs Hin)). Qed.
Print Assumptions block_handed_over_only_with_M_commits.

Theorem preblock_handed_over_only_with_M_precommits cfg st ev sc st' tr s h e :
  Reach cfg st -> step cfg st ev sc = Ok (st', tr) -> In (s, CProcessPreBlock h e) tr ->
  hasAllTransactions s = true /\ Mq s <= count_view (ViewNumber s) (PreCommitPayloads s).
Proof. exact (fun HR Hs Hin => proj1 (proj2 (processpreblock_gate cfg st ev sc st' tr s h e HR Hs Hin))). Qed.
Print Assumptions preblock_handed_over_only_with_M_precommits.

(* the accepted block is the view's primary proposal: at the callback handing over a block, in every history, the block is
   the node's header; its timestamp, nonce and transaction list (in order) are those of the PrepareRequest of the node's
   current view held in the primary's slot; its index and previous hash are the context's, read from the application when
   the height was initialised *)
Theorem accepted_block_is_the_proposal_of_the_view cfg st ev sc st' tr s h e :
  Reach cfg st -> step cfg st ev sc = Ok (st', tr) -> In (s, CProcessBlock h e) tr ->
  exists b r, header s = Some b /\ h = block_hash b /\ slot (PreparationPayloads s) (PrimaryIndex s) = Some r /\
              p_type r = PrepareRequestT /\ p_view r = ViewNumber s /\
              p_body r = B0 (BPrepareRequest (b_ts b) (b_nonce b) (b_hashes b)) /\
              b_index b = BlockIndex s /\ b_prev b = PrevHash s.
Proof. exact (accepted_block_is_the_primary_proposal cfg st ev sc st' tr s h e). Qed.
Print Assumptions accepted_block_is_the_proposal_of_the_view.

(* ... and that slot is the one of the view's primary, (height - view) mod N *)
Theorem primary_slot_is_that_of_the_view cfg st :
  Reach cfg st -> 0 < N st -> PrimaryIndex st = Quorum.primary (BlockIndex st) (ViewNumber st) (N st).
Proof. exact (fun HR HN => eq_trans (primary_slot_is_the_view_primary cfg st HR HN) (primary_of_is_quorum_primary st (ViewNumber st))). Qed.
Print Assumptions primary_slot_is_that_of_the_view.

(* under anti-MEV the same for the pre-block: what is handed to ProcessPreBlock is the node's pre-header, whose timestamp, nonce
   and transaction list are those of the current view's PrepareRequest in the primary's slot, with the context's index and
   previous hash *)
Theorem accepted_preblock_is_the_proposal_of_the_view cfg st ev sc st' tr s h e :
  Reach cfg st -> step cfg st ev sc = Ok (st', tr) -> In (s, CProcessPreBlock h e) tr ->
  exists pb r, preheader s = Some pb /\ h = preblock_hash pb /\ slot (PreparationPayloads s) (PrimaryIndex s) = Some r /\
               p_body r = B0 (BPrepareRequest (pb_ts pb) (pb_nonce pb) (pb_hashes pb)) /\
               p_view r = ViewNumber s /\ pb_index pb = BlockIndex s /\ pb_prev pb = PrevHash s.
Proof. exact (accepted_preblock_is_the_primary_proposal cfg st ev sc st' tr s h e). Qed.
Print Assumptions accepted_preblock_is_the_proposal_of_the_view.
