(* C02 Decision certificate. Proved here: the counting clause for every reachable state. The signature clause is false
   for the faithful model (known findings D1/D1p/D2: payloads stored before the proposal are never verified); the
   refutation is replayed on the real code by the corpus scenarios of every check run (DESIGN.md C02). *)
From Coq Require Import ZArith List.
From DbftV Require Import Gates.
Open Scope Z_scope.

(* a block is handed to the application only while the node holds commits of its current view in at least M slots and
   every transaction of the proposal *)
Theorem block_handed_over_only_with_M_commits cfg st ev sc st' tr s h e :
  Reach cfg st -> step cfg st ev sc = Ok (st', tr) -> In (s, CProcessBlock h e) tr ->
  hasAllTransactions s = true /\ Mq s <= count_view (ViewNumber s) (CommitPayloads s).
Proof. exact (fun HR Hs Hin => proj1 (processblock_gate cfg st ev sc st' tr s h e HR Hs Hin)). Qed.
Print Assumptions block_handed_over_only_with_M_commits.

Theorem preblock_handed_over_only_with_M_precommits cfg st ev sc st' tr s h e :
  Reach cfg st -> step cfg st ev sc = Ok (st', tr) -> In (s, CProcessPreBlock h e) tr ->
  hasAllTransactions s = true /\ Mq s <= count_view (ViewNumber s) (PreCommitPayloads s).
Proof. exact (fun HR Hs Hin => proj1 (proj2 (processpreblock_gate cfg st ev sc st' tr s h e HR Hs Hin))). Qed.
Print Assumptions preblock_handed_over_only_with_M_precommits.
