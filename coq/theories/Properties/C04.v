(* C04 Quorum-gated progress: respond, commit and change view only on evidence.
   Statements are about the node model (Node/Model.v), for EVERY state reachable from a fresh instance through any
   sequence of API calls with any callback answers ([Reach]), every further call and every script:
   (s, c) in tr means callback c was made in node state s. *)
From Coq Require Import ZArith List.
From DbftV Require Import Gates NoPanic.
Open Scope Z_scope.

(* a PrepareResponse is broadcast only while every transaction of the proposal is held, and it names the hash of the
   payload stored in the primary's slot (the held proposal) *)
Theorem response_only_for_the_held_proposal cfg st ev sc st' tr s p :
  Reach cfg st -> step cfg st ev sc = Ok (st', tr) -> In (s, CBroadcast p) tr -> p_type p = PrepareResponseT ->
  hasAllTransactions s = true /\
  exists r, p_body p = B0 (BPrepareResponse (payload_hash r)) /\
            (MyIndex s <> PrimaryIndex s -> slot (PreparationPayloads s) (PrimaryIndex s) = Some r).
Proof. exact (response_gate cfg st ev sc st' tr s p). Qed.
Print Assumptions response_only_for_the_held_proposal.

(* without anti-MEV a Commit, with anti-MEV a PreCommit, is broadcast only while the node holds a PrepareRequest, all its
   transactions and at least M preparations of its current view *)
Theorem commit_only_on_preparation_quorum cfg st ev sc st' tr s p :
  Reach cfg st -> step cfg st ev sc = Ok (st', tr) -> In (s, CBroadcast p) tr -> p_type p = CommitT -> amev_on cfg s = false ->
  hasAllTransactions s = true /\ Mq s <= count_view (ViewNumber s) (PreparationPayloads s) /\ existsb is_req (PreparationPayloads s) = true.
Proof.
  exact (fun HR Hs Hin Ty Ham => eq_ind false (fun b => (if b then _ else prep_quorum s) -> prep_quorum s) (fun H => H) _ (eq_sym Ham)
                                   (commit_gate cfg st ev sc st' tr s p HR Hs Hin Ty)).
Qed.
Print Assumptions commit_only_on_preparation_quorum.

Theorem precommit_only_on_preparation_quorum cfg st ev sc st' tr s p :
  Reach cfg st -> step cfg st ev sc = Ok (st', tr) -> In (s, CBroadcast p) tr -> p_type p = PreCommitT ->
  amev_on cfg s = true /\
  (hasAllTransactions s = true /\ Mq s <= count_view (ViewNumber s) (PreparationPayloads s) /\ existsb is_req (PreparationPayloads s) = true).
Proof. exact (precommit_gate cfg st ev sc st' tr s p). Qed.
Print Assumptions precommit_only_on_preparation_quorum.

(* the node is in a view v > 0 only while holding - in LastChangeViewPayloads, the requests kept when it entered the view -
   change-view requests for v or above from at least M distinct validators (one slot per validator).
   Every state reached by Start on a fresh instance followed by any well-formed API calls, any callback answers. *)
Theorem higher_view_only_on_M_change_view_requests cfg st :
  cfg_inc cfg <> 0 -> Started cfg st -> 0 < ViewNumber st ->
  Mq st <= count (fun o => match o with Some p => cv_newview p >=? ViewNumber st | None => false end) (LastChangeViewPayloads st).
Proof. exact (fun Hi HS => sz_vi st (started_sized cfg Hi st HS)). Qed.
Print Assumptions higher_view_only_on_M_change_view_requests.
