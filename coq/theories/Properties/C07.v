(* C07 Anti-MEV phase discipline: pre-commit, pre-block, commit, block in order (node model, all reachable states). *)
From Coq Require Import ZArith List.
From DbftV Require Import Gates P11.
Open Scope Z_scope.

(* at an anti-MEV height a Commit is broadcast only after the pre-block callback succeeded, with the node's own PreCommit
   in its slot and at least M pre-commits of its current view *)
Theorem commit_after_precommit_and_preblock cfg st ev sc st' tr s p :
  Reach cfg st -> step cfg st ev sc = Ok (st', tr) -> In (s, CBroadcast p) tr -> p_type p = CommitT -> amev_on cfg s = true ->
  (hasAllTransactions s = true /\ Mq s <= count_view (ViewNumber s) (PreCommitPayloads s)) /\
  preBlockProcessed s = true /\ slot (PreCommitPayloads s) (MyIndex s) <> None.
Proof.
  exact (fun HR Hs Hin Ty Ham => eq_ind true (fun b => (if b then precommit_quorum s /\ preBlockProcessed s = true /\ slot (PreCommitPayloads s) (MyIndex s) <> None else _) ->
                                                 precommit_quorum s /\ preBlockProcessed s = true /\ slot (PreCommitPayloads s) (MyIndex s) <> None) (fun H => H) _ (eq_sym Ham)
                                   (commit_gate cfg st ev sc st' tr s p HR Hs Hin Ty)).
Qed.
Print Assumptions commit_after_precommit_and_preblock.

(* the pre-block is handed over only at anti-MEV heights, with M pre-commits of the current view and all transactions,
   and never again once the callback has succeeded for this height *)
Theorem preblock_only_on_precommit_quorum_and_once cfg st ev sc st' tr s h e :
  Reach cfg st -> step cfg st ev sc = Ok (st', tr) -> In (s, CProcessPreBlock h e) tr ->
  amev_on cfg s = true /\ (hasAllTransactions s = true /\ Mq s <= count_view (ViewNumber s) (PreCommitPayloads s)) /\ preBlockProcessed s = false.
Proof. exact (processpreblock_gate cfg st ev sc st' tr s h e). Qed.
Print Assumptions preblock_only_on_precommit_quorum_and_once.

(* a PreCommit is broadcast only at heights where the extension is enabled *)
Theorem precommit_only_when_enabled cfg st ev sc st' tr s p :
  Reach cfg st -> step cfg st ev sc = Ok (st', tr) -> In (s, CBroadcast p) tr -> p_type p = PreCommitT -> amev_on cfg s = true.
Proof. exact (fun HR Hs Hin Ty => proj1 (precommit_gate cfg st ev sc st' tr s p HR Hs Hin Ty)). Qed.
Print Assumptions precommit_only_when_enabled.

(* the final block of an anti-MEV height is built only after the pre-block callback has succeeded *)
Theorem final_block_built_only_after_the_preblock cfg st ev sc st' tr s ok :
  Reach cfg st -> step cfg st ev sc = Ok (st', tr) -> In (s, CNewBlock ok) tr -> amev_on cfg s = true -> preBlockProcessed s = true.
Proof. exact (newblock_gate cfg st ev sc st' tr s ok). Qed.
Print Assumptions final_block_built_only_after_the_preblock.

(* at heights where the extension is off a received pre-commit is not acted upon (every state, every script) *)
Theorem precommit_not_acted_upon_when_disabled cfg ic msg s0 d :
  p_body msg = B0 (BPreCommit d) -> p_idx msg < N s0 -> p_height msg = BlockIndex s0 -> p_view msg <= ViewNumber s0 ->
  amev_on cfg s0 = false ->
  hx s0 (OnReceive cfg ic msg)
     (fun _ s tr => (exists l, s = s0 <| LastSeenMessage := l |>) /\ Forall (fun sc => exists b, snd sc = CWatchOnly b) tr).
Proof. exact (P11.precommit_while_antimev_is_off cfg ic msg s0 d). Qed.
Print Assumptions precommit_not_acted_upon_when_disabled.
