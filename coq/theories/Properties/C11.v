(* C11 Input hygiene.
   Proved here (node model): each inadmissible class named by the property, as a theorem for EVERY node state meeting the
   class condition, every continuation and every script: the call ends in the same state except possibly LastSeenMessage
   ("noting that the sender is alive"), and makes no callback other than watch-only queries - hence no broadcast, no
   timer call, no verification, no transaction request.  [hx] accepts a model Panic; that no panic can occur is the separate
   theorem at the end of this file (Node/NoPanic.v): in the model, Panic is the outcome of every checked table access out of
   range, write to the unallocated cache map, nil proposal dereference, division by a zero quorum or increment.
   Go panics at sites the model does not have (none known) are decided by the correspondence run: a Go panic in any history
   is a violation.
   Re-delivery of a stored ChangeView is not unconditionally inert: known finding D15. *)
From Coq Require Import ZArith List.
From DbftV Require Import P11 NoPanic.
Open Scope Z_scope.

Definition unchanged_but_sender_noted (s0 : nstate) (_ : unit) (s : nstate) (tr : tr_t) : Prop :=
  (exists l, s = s0 <| LastSeenMessage := l |>) /\ Forall (fun sc => exists b, snd sc = CWatchOnly b) tr.

Theorem index_outside_the_validator_list cfg ic msg s0 :
  N s0 <= p_idx msg -> hx s0 (OnReceive cfg ic msg) (fun _ s tr => s = s0 /\ tr = []).
Proof. exact (index_outside_the_list cfg ic msg s0). Qed.
Print Assumptions index_outside_the_validator_list.

Theorem payload_of_a_past_height cfg ic msg s0 :
  p_height msg < BlockIndex s0 -> hx s0 (OnReceive cfg ic msg) (fun _ s tr => s = s0 /\ tr = []).
Proof. exact (past_height cfg ic msg s0). Qed.
Print Assumptions payload_of_a_past_height.

Theorem current_view_proposal_not_from_the_primary cfg ic msg s0 ts nonce hs :
  p_body msg = B0 (BPrepareRequest ts nonce hs) -> p_idx msg < N s0 -> p_height msg = BlockIndex s0 -> p_view msg = ViewNumber s0 ->
  p_idx msg <> primary_of s0 (ViewNumber s0) ->
  hx s0 (OnReceive cfg ic msg) (unchanged_but_sender_noted s0).
Proof. exact (proposal_not_from_the_primary cfg ic msg s0 ts nonce hs). Qed.
Print Assumptions current_view_proposal_not_from_the_primary.

Theorem proposal_for_a_lower_view cfg ic msg s0 ts nonce hs :
  p_body msg = B0 (BPrepareRequest ts nonce hs) -> p_idx msg < N s0 -> p_height msg = BlockIndex s0 -> p_view msg < ViewNumber s0 ->
  hx s0 (OnReceive cfg ic msg) (unchanged_but_sender_noted s0).
Proof. exact (P11.proposal_for_a_lower_view cfg ic msg s0 ts nonce hs). Qed.
Print Assumptions proposal_for_a_lower_view.

Theorem prepare_response_for_a_lower_view cfg ic msg s0 h :
  p_body msg = B0 (BPrepareResponse h) -> p_idx msg < N s0 -> p_height msg = BlockIndex s0 -> p_view msg < ViewNumber s0 ->
  hx s0 (OnReceive cfg ic msg) (unchanged_but_sender_noted s0).
Proof. exact (response_for_a_lower_view cfg ic msg s0 h). Qed.
Print Assumptions prepare_response_for_a_lower_view.

Theorem prepare_response_from_the_primary cfg ic msg s0 h :
  p_body msg = B0 (BPrepareResponse h) -> p_idx msg < N s0 -> p_height msg = BlockIndex s0 -> p_view msg = ViewNumber s0 ->
  p_idx msg = primary_of s0 (ViewNumber s0) ->
  hx s0 (OnReceive cfg ic msg) (unchanged_but_sender_noted s0).
Proof. exact (response_from_the_primary cfg ic msg s0 h). Qed.
Print Assumptions prepare_response_from_the_primary.

Theorem precommit_while_antimev_is_off cfg ic msg s0 d :
  p_body msg = B0 (BPreCommit d) -> p_idx msg < N s0 -> p_height msg = BlockIndex s0 -> p_view msg <= ViewNumber s0 ->
  amev_on cfg s0 = false ->
  hx s0 (OnReceive cfg ic msg) (unchanged_but_sender_noted s0).
Proof. exact (P11.precommit_while_antimev_is_off cfg ic msg s0 d). Qed.
Print Assumptions precommit_while_antimev_is_off.

Theorem transaction_that_was_not_requested cfg t s0 :
  ~ In (tx_hash t) (MissingTransactions s0) ->
  hx s0 (OnTransaction cfg t) (fun _ s tr => s = s0 /\ Forall (fun sc => exists b, snd sc = CWatchOnly b) tr).
Proof. exact (transaction_not_requested cfg t s0). Qed.
Print Assumptions transaction_that_was_not_requested.

Theorem timeout_tagged_with_another_height_or_view cfg h v s0 :
  h <> BlockIndex s0 \/ v <> ViewNumber s0 ->
  hx s0 (OnTimeout cfg h v) (fun _ s tr => s = s0 /\ Forall (fun sc => exists b, snd sc = CWatchOnly b) tr).
Proof. exact (OnTimeout_of_another_epoch cfg h v s0). Qed.
Print Assumptions timeout_tagged_with_another_height_or_view.

(* re-delivery of stored payloads *)
Theorem redelivered_prepare_response cfg ic msg s0 h old :
  p_body msg = B0 (BPrepareResponse h) -> p_idx msg < N s0 -> p_height msg = BlockIndex s0 -> p_view msg = ViewNumber s0 ->
  0 <= p_idx msg -> nth_chk (PreparationPayloads s0) (Z.to_nat (p_idx msg)) = Some (Some old) ->
  hx s0 (OnReceive cfg ic msg) (unchanged_but_sender_noted s0).
Proof. exact (response_already_stored cfg ic msg s0 h old). Qed.
Print Assumptions redelivered_prepare_response.

Theorem redelivered_commit cfg ic msg s0 sg old :
  p_body msg = B0 (BCommit sg) -> p_idx msg < N s0 -> p_height msg = BlockIndex s0 -> p_view msg <= ViewNumber s0 ->
  0 <= p_idx msg -> nth_chk (CommitPayloads s0) (Z.to_nat (p_idx msg)) = Some (Some old) ->
  hx s0 (OnReceive cfg ic msg) (unchanged_but_sender_noted s0).
Proof. exact (commit_already_stored cfg ic msg s0 sg old). Qed.
Print Assumptions redelivered_commit.

Theorem redelivered_precommit cfg ic msg s0 d old :
  p_body msg = B0 (BPreCommit d) -> p_idx msg < N s0 -> p_height msg = BlockIndex s0 -> p_view msg <= ViewNumber s0 ->
  0 <= p_idx msg -> nth_chk (PreCommitPayloads s0) (Z.to_nat (p_idx msg)) = Some (Some old) ->
  hx s0 (OnReceive cfg ic msg) (unchanged_but_sender_noted s0).
Proof. exact (precommit_already_stored cfg ic msg s0 d old). Qed.
Print Assumptions redelivered_precommit.

Theorem redelivered_proposal cfg ic msg s0 ts nonce hs old :
  p_body msg = B0 (BPrepareRequest ts nonce hs) -> p_idx msg < N s0 -> p_height msg = BlockIndex s0 -> p_view msg <= ViewNumber s0 ->
  0 <= PrimaryIndex s0 -> nth_chk (PreparationPayloads s0) (Z.to_nat (PrimaryIndex s0)) = Some (Some old) ->
  hx s0 (OnReceive cfg ic msg) (unchanged_but_sender_noted s0).
Proof. exact (proposal_already_held cfg ic msg s0 ts nonce hs old). Qed.
Print Assumptions redelivered_proposal.

(* No sequence of well-formed API calls, whatever the callbacks return, makes the node panic: Start on a fresh instance,
   then any calls (Start/Reset again, OnReceive of payloads whose validator indices are unsigned - also inside recovery
   messages -, OnTimeout with any tag, OnTransaction with any transaction, OnNewTransaction), with ANY script of callback
   answers.  cfg_inc <> 0: the constructor rejects a zero timestamp increment. *)
Theorem no_sequence_of_well_formed_calls_panics cfg st ev sc :
  cfg_inc cfg <> 0 -> Started cfg st -> wf_event ev -> step cfg st ev sc <> Panic.
Proof. exact (fun Hi => no_panic cfg Hi st ev sc). Qed.
Print Assumptions no_sequence_of_well_formed_calls_panics.

Theorem the_first_start_does_not_panic cfg ts sc : cfg_inc cfg <> 0 -> step cfg fresh_state (EStart ts) sc <> Panic.
Proof. exact (fun Hi => no_panic_at_start cfg Hi ts sc). Qed.
Print Assumptions the_first_start_does_not_panic.

(* every state reached that way keeps all tables sized to the validator list and all stored indices inside it *)
Theorem started_states_are_sized cfg st : cfg_inc cfg <> 0 -> Started cfg st -> Sz st.
Proof. exact (fun Hi => started_sized cfg Hi st). Qed.
Print Assumptions started_states_are_sized.
