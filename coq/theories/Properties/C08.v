(* C08 Fault-free synchronous runs decide every height in view 0, in any order.
   The property is a statement about synchronous multi-node executions and is decided on runs of the real library (sync
   mode c08: arbitrary in-round order, duplicates, early deliveries, slow ledgers) with monitors, the model tied to the code
   by the correspondence run.  What is proved here is the node-level fact the "in any order" clause rests on: a payload
   that reaches a node before it has entered the height or the view it belongs to is not lost and has no other effect
   (every state).  Its replay at the (re)initialisation is part of the model and exercised, not proved separately. *)
From Coq Require Import ZArith List.
From DbftV Require Import P05.
Open Scope Z_scope.

Theorem payload_for_a_later_height_is_kept cfg ic msg s0 :
  p_idx msg < N s0 -> BlockIndex s0 < p_height msg -> cache_ready s0 = true ->
  hx s0 (OnReceive cfg ic msg) (fun _ s tr =>
    tr = [] /\
    let old := match assoc_get (cache s0) (p_height msg) with Some x => x | None => empty_inbox end in
    s = s0 <| cache := assoc_put (cache s0) (p_height msg) (inbox_with old msg) |> /\
    assoc_get (cache s) (p_height msg) = Some (inbox_with old msg)).
Proof. exact (future_height_payload_is_kept cfg ic msg s0). Qed.
Print Assumptions payload_for_a_later_height_is_kept.

Theorem payload_for_a_later_view_is_kept cfg ic msg s0 :
  p_idx msg < N s0 -> p_height msg = BlockIndex s0 -> ViewNumber s0 < p_view msg ->
  p_type msg <> ChangeViewT -> p_type msg <> RecoveryMessageT -> cache_ready s0 = true ->
  hx s0 (OnReceive cfg ic msg) (fun _ s tr =>
    tr = [] /\
    let old := match assoc_get (cache s0) (p_height msg) with Some x => x | None => empty_inbox end in
    s = s0 <| cache := assoc_put (cache s0) (p_height msg) (inbox_with old msg) |> /\
    assoc_get (cache s) (p_height msg) = Some (inbox_with old msg)).
Proof. exact (future_view_payload_is_kept cfg ic msg s0). Qed.
Print Assumptions payload_for_a_later_view_is_kept.
