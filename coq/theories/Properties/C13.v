(* C13 Watch-only nodes are silent (node model; from ANY state, any API call, any callback answers).
   (s, c) in tr: callback c was made in node state s.  The library consults the watch-only flag only while the node is in
   the validator list (second theorem); a node outside the list is watch-only without being asked. *)
From Coq Require Import ZArith List.
From DbftV Require Import P13.
Open Scope Z_scope.

Definition emits (c : call) : Prop := match c with CBroadcast _ | CSign _ | CSetData _ => True | _ => False end.

(* if at every instant the flag is consulted the node is outside the list or the flag is set, nothing is broadcast,
   no block is signed and no pre-commit data is produced - whatever role the rotation assigns to the node's index,
   including being primary at Start *)
Theorem watch_only_nodes_are_silent cfg st ev sc st' tr :
  step cfg st ev sc = Ok (st', tr) ->
  (forall s b, In (s, CWatchOnly b) tr -> b = true \/ MyIndex s < 0) ->
  forall s c, In (s, c) tr -> ~ emits c.
Proof.
  exact (fun Hs Hw s c Hin =>
    proj1 (Forall_forall _ tr)
      (silent_step cfg st ev sc st' tr Hs
         (proj2 (Forall_forall _ tr) (fun x =>
            match x as x0 return In x0 tr -> match snd x0 with CWatchOnly b => b = true | _ => True end with
            | (s1, c1) => fun Hx =>
                match c1 as c2 return In (s1, c2) tr -> match c2 with CWatchOnly b => b = true | _ => True end with
                | CWatchOnly b => fun Hx' =>
                    match Hw s1 b Hx' with
                    | or_introl E => E
                    | or_intror Hneg =>
                        False_ind _ (Zlt_not_le _ _ Hneg (proj1 (Forall_forall _ tr) (flag_consulted_only_in_list cfg st ev sc st' tr Hs) (s1, CWatchOnly b) Hx'))
                    end
                | _ => fun _ => I
                end Hx
            end))) (s, c) Hin).
Qed.
Print Assumptions watch_only_nodes_are_silent.

Theorem flag_is_consulted_only_while_in_the_validator_list cfg st ev sc st' tr s b :
  step cfg st ev sc = Ok (st', tr) -> In (s, CWatchOnly b) tr -> 0 <= MyIndex s.
Proof. exact (fun Hs Hin => proj1 (Forall_forall _ tr) (flag_consulted_only_in_list cfg st ev sc st' tr Hs) (s, CWatchOnly b) Hin). Qed.
Print Assumptions flag_is_consulted_only_while_in_the_validator_list.
