(* C06 Quorum arithmetic and primary rotation are correct for every validator count.
   Property theorems only: each is closed by [exact] of a lemma proved elsewhere, with Print Assumptions beneath. *)
From Coq Require Import ZArith List.
From DbftV Require Import Quorum Model.
Open Scope Z_scope.

(* The node model computes N, F, M and the primary with exactly the expressions the theorems are about. *)
Theorem model_uses_these_definitions (s : nstate) (v : Z) :
  Model.F s = Quorum.F (Model.N s) /\ Model.Mq s = Quorum.M (Model.N s) /\
  (Model.N s <> 0 -> forall m, Model.GetPrimaryIndex s v m = Ok (Quorum.primary (BlockIndex s) v (Model.N s), m)).
Proof. exact (model_quorum_defs s v). Qed.
Print Assumptions model_uses_these_definitions.

Theorem fault_bound_and_quorum n : 1 <= n -> Quorum.F n = (n - 1) / 3 /\ 3 * Quorum.F n < n /\ Quorum.M n = n - Quorum.F n.
Proof. exact (fun H => conj (proj1 (F_def n H)) (conj (proj2 (F_def n H)) (M_def n))). Qed.
Print Assumptions fault_bound_and_quorum.

Theorem two_quorums_share_more_than_F n : 1 <= n -> 2 * Quorum.M n - n >= Quorum.F n + 1.
Proof. exact (Quorum.two_quorums_share_more_than_F n). Qed.
Print Assumptions two_quorums_share_more_than_F.

Theorem quorum_intersection n (q1 q2 : list Z) :
  1 <= n -> NoDup q1 -> NoDup q2 ->
  (forall x, In x q1 -> 0 <= x < n) -> (forall x, In x q2 -> 0 <= x < n) ->
  Quorum.M n <= Z.of_nat (length q1) -> Quorum.M n <= Z.of_nat (length q2) ->
  Quorum.F n + 1 <= Z.of_nat (length (filter (Quorum.mem q2) q1)).
Proof. exact (Quorum.quorum_intersection n q1 q2). Qed.
Print Assumptions quorum_intersection.

Theorem quorum_never_needs_a_faulty_validator n (faulty : list Z) :
  1 <= n -> Z.of_nat (length faulty) <= Quorum.F n -> Quorum.M n <= n - Z.of_nat (length faulty).
Proof. exact (quorum_without_faulty_set n faulty). Qed.
Print Assumptions quorum_never_needs_a_faulty_validator.

Theorem primary_is_h_minus_v_mod_n h v n : 1 <= n -> Quorum.primary h v n = (h - v) mod n /\ 0 <= Quorum.primary h v n < n.
Proof. exact (fun H => conj (primary_is_mod h v n H) (primary_in_range h v n H)). Qed.
Print Assumptions primary_is_h_minus_v_mod_n.

(* over n consecutive views every validator is primary exactly once: injective and onto on the window *)
Theorem rotation_over_views h n v0 : 1 <= n ->
  (forall v1 v2, v0 <= v1 -> v1 <= v2 < v0 + n -> Quorum.primary h v1 n = Quorum.primary h v2 n -> v1 = v2) /\
  (forall k, 0 <= k < n -> exists v, v0 <= v < v0 + n /\ Quorum.primary h v n = k).
Proof.
  exact (fun Hn => conj (fun v1 v2 H0 H12 => rotation_views_inj h n v1 v2 Hn (conj (proj1 H12) (Z.lt_le_trans _ _ _ (proj2 H12) (Zplus_le_compat_r _ _ n H0))))
                        (fun k Hk => rotation_views_surj h n v0 k Hn Hk)).
Qed.
Print Assumptions rotation_over_views.

Theorem rotation_over_heights v n h0 : 1 <= n ->
  (forall h1 h2, h0 <= h1 -> h1 <= h2 < h0 + n -> Quorum.primary h1 v n = Quorum.primary h2 v n -> h1 = h2) /\
  (forall k, 0 <= k < n -> exists h, h0 <= h < h0 + n /\ Quorum.primary h v n = k).
Proof.
  exact (fun Hn => conj (fun h1 h2 H0 H12 => rotation_heights_inj v n h1 h2 Hn (conj (proj1 H12) (Z.lt_le_trans _ _ _ (proj2 H12) (Zplus_le_compat_r _ _ n H0))))
                        (fun k Hk => rotation_heights_surj v n h0 k Hn Hk)).
Qed.
Print Assumptions rotation_over_heights.

(* known finding D14: the window argument does not survive the uint32 wrap of the block index *)
Theorem rotation_across_uint32_wrap_refuted :
  Quorum.primary (2 ^ 32 - 1) 0 3 = Quorum.primary ((2 ^ 32 - 1 + 1) mod 2 ^ 32) 0 3.
Proof. exact rotation_across_wrap_refuted. Qed.
Print Assumptions rotation_across_uint32_wrap_refuted.
