(* C15 Honest proposals are well formed.
   (1) whole model, every reachable state, every script: a PrepareRequest is broadcast only with the context's timestamp,
       nonce and transaction list, for the node's height and view, and that timestamp is at least previous + increment -
       strictly greater than the previous block's timestamp whenever previous + increment does not overflow uint64;
   (2) every state: Fill (which sets those context values) takes exactly the pool callback's transactions in order, the clock
       truncated to the increment when that is larger, and the nonce callback's value;
   (3) every state: the node's own block header is built from those same context values.
   The tie "context at the broadcast = context left by Fill" within one call is carried by (1)+(2) only through the model's
   sendPrepareRequest; it is exercised on the real code by the correspondence run and the C15 monitor (DESIGN.md C15). *)
From Coq Require Import ZArith List.
From DbftV Require Import Gates P15.
Open Scope Z_scope.

Theorem proposal_carries_context_values_and_a_later_timestamp cfg st ev sc st' tr s p :
  Reach cfg st -> step cfg st ev sc = Ok (st', tr) -> In (s, CBroadcast p) tr -> p_type p = PrepareRequestT ->
  p_body p = B0 (BPrepareRequest (Timestamp s) (Nonce s) (TransactionHashes s)) /\ p_height p = BlockIndex s /\ p_view p = ViewNumber s /\
  u64 (lastBlockTimestamp s + cfg_inc cfg) <= Timestamp s /\
  (0 <= lastBlockTimestamp s -> 0 < cfg_inc cfg -> lastBlockTimestamp s + cfg_inc cfg < 18446744073709551616 -> lastBlockTimestamp s < Timestamp s).
Proof.
  exact (fun HR Hs Hin Ty =>
    match request_gate cfg st ev sc st' tr s p HR Hs Hin Ty with
    | conj A (conj B (conj C D)) => conj A (conj B (conj C (conj D (fun H1 H2 H3 => ts_strict _ _ _ H1 H2 H3 D))))
    end).
Qed.
Print Assumptions proposal_carries_context_values_and_a_later_timestamp.

Theorem fill_takes_the_pool_the_truncated_clock_and_the_nonce cfg force s0 :
  cfg_inc cfg <> 0 ->
  hx s0 (Fill cfg force) (fun r s tr =>
    match r with
    | false => s = s0 /\ cfg_dyn cfg = true /\ force = false /\ map snd tr = [CGetVerified []]
    | true => exists txs t n, map snd tr = [CGetVerified txs; CNow t; CNonce n] /\
              TransactionHashes s = map tx_hash txs /\ Nonce s = n /\
              Timestamp s = Z.max (u64 (lastBlockTimestamp s0 + cfg_inc cfg)) (u64 t / cfg_inc cfg * cfg_inc cfg) /\
              (forall x, In x txs -> tx_find (Transactions s) (tx_hash x) <> None) /\
              lastBlockTimestamp s = lastBlockTimestamp s0 /\ BlockIndex s = BlockIndex s0 /\ ViewNumber s = ViewNumber s0 /\
              MyIndex s = MyIndex s0 /\ PrevHash s = PrevHash s0
    end).
Proof. exact (fill_spec cfg force s0). Qed.
Print Assumptions fill_takes_the_pool_the_truncated_clock_and_the_nonce.

Theorem own_block_is_built_from_the_same_values cfg s0 :
  header s0 = None ->
  hx s0 (MakeHeader cfg) (fun r s tr => forall b, r = Some b ->
    b_index b = BlockIndex s0 /\ b_prev b = PrevHash s0 /\ b_ts b = Timestamp s0 /\ b_nonce b = Nonce s0 /\ b_hashes b = TransactionHashes s0 /\
    header s = Some b /\ Timestamp s = Timestamp s0 /\ Nonce s = Nonce s0 /\ TransactionHashes s = TransactionHashes s0).
Proof. exact (makeheader_spec cfg s0). Qed.
Print Assumptions own_block_is_built_from_the_same_values.
