(* C14 Time enters only through the injected timer (clock-shift invariance).
   The run-level property is decided by executing every generated history twice on the real library under clocks that
   differ by a constant (multiples of the run's timestamp increment, from 7 ns to 12 years, at different wall-clock times)
   and comparing payloads and timer durations; the model is tied to the code by the correspondence run.
   At node level: the model has no clock of its own ([step] is a function of state, event and the script, in which clock
   readings appear only as answers to the Now callback), and every use the model makes of a reading is equivariant: *)
From Coq Require Import ZArith List.
From DbftV Require Import P14.
Open Scope Z_scope.

Theorem proposal_timestamp_truncation_commutes_with_a_clock_shift inc t d :
  0 < inc -> (inc | d) -> 0 <= t < 18446744073709551616 -> 0 <= t + d < 18446744073709551616 ->
  u64 (t + d) / inc * inc = u64 t / inc * inc + d.
Proof. exact (truncation_commutes_with_the_shift inc t d). Qed.
Print Assumptions proposal_timestamp_truncation_commutes_with_a_clock_shift.

Theorem elapsed_times_do_not_see_a_clock_shift t t0 d : sat64 ((t + d) - (t0 + d)) = sat64 (t - t0).
Proof. exact (elapsed_time_does_not_see_the_shift t t0 d). Qed.
Print Assumptions elapsed_times_do_not_see_a_clock_shift.

Theorem timestamps_copied_into_payloads_shift_with_the_clock t d :
  0 <= t < 18446744073709551616 -> 0 <= t + d < 18446744073709551616 -> u64 (t + d) = u64 t + d.
Proof. exact (copied_reading_shifts t d). Qed.
Print Assumptions timestamps_copied_into_payloads_shift_with_the_clock.

Theorem the_proposal_timestamp_is_the_truncated_reading_of_one_Now_callback cfg s0 :
  cfg_inc cfg <> 0 ->
  hx s0 (getTimestamp cfg) (fun r s tr => s = s0 /\ exists t, map snd tr = [CNow t] /\ r = u64 t / cfg_inc cfg * cfg_inc cfg).
Proof. exact (getTimestamp_is_the_truncated_reading cfg s0). Qed.
Print Assumptions the_proposal_timestamp_is_the_truncated_reading_of_one_Now_callback.
