(* C03 Non-equivocation and commit lock - what is proved (node model), for EVERY state in which the node's own Commit or
   PreCommit slot is filled and every script under which it is a validator that is not watch-only ([Val]):
   - a retransmitted Commit / PreCommit is the stored one: nothing is signed again and nothing changes;
   - a timeout, a ChangeView from a peer (for a higher view or not) and a transaction leave the view untouched and
     broadcast no ChangeView.
   For every reachable state and script (whole model, P02.v): the node asks the application for a block signature only
   for the hash of its header - the proposal of its current view held in the primary's slot - and only while its own
   Commit slot is empty.
   For every history of one initialisation epoch (Start or Reset, then any other API calls, any callback answers) in which
   the application reports one validator index in its key-pair callbacks, never tells the node to watch only, and the
   validator list has at most 2^16 entries (SignL.v .. SignLApi.v): the node asks for at most one block signature; once it
   has signed, its own Commit slot keeps exactly that commit and NO further call changes the view (the commit lock, at all
   of its sites including a PrepareRequest arriving after the commit) until the next epoch; every ChangeView the node
   broadcasts in the epoch precedes its signature request - after it has signed, no call makes it broadcast a ChangeView - and
   the table of view-change requests (its own request included) is never written again (SignLCV.v, Typed.v, SignLNoCV.v);
   from its signature request on, every Commit payload it broadcasts - the first broadcast and every direct retransmission - is
   the commit built at that request (TypedCM.v, SignLCM.v).
   The same for the pre-commit under anti-MEV (SignP.v .. SignPNoCV.v, the construction with the roles of the two phases exchanged):
   the node asks for pre-commit data at most once per epoch, its own PreCommit slot keeps that pre-commit, and from that request
   on no call changes the view or makes it broadcast a ChangeView, and every PreCommit it broadcasts is the one built then.
   Retransmission inside a recovery message (P09b.v, SignLRM.v): wherever it is called, sendRecoveryMessage of a node whose own
   Commit slot is filled broadcasts a recovery message of the node's height and view carrying that Commit whole; and in every
   history of an epoch, once the node has signed, every RecoveryRequest is answered with a recovery message of the signed
   commit's view that carries the signed commit (what the reference application's reconstruction needs to rebuild it
   identically: Properties/C19.v commit_rebuilt_under_its_own_height_and_view_is_the_original); and, on sendRecoveryMessage
   itself - the one place where a recovery message is built - from the state reached by any history of an epoch: after the
   signature (after the pre-commit was built) the message carries the signed commit (the built pre-commit) in its view
   (SignPRM.v).
   The history-level clauses about proposals, responses and pre-commits (no two per view / at all), the commits carried inside
   the recovery messages sent on other occasions (timeouts, ChangeViews of peers), view monotonicity of the outgoing messages
   and the other recovery contents are NOT proved; they
   are decided by the monitors on the real library over the generated histories (DESIGN.md section 0.1). *)
From Coq Require Import ZArith List.
From DbftV Require Import P03 P02 SignLApi SignLCV Typed SignLNoCV SignLCM SignPApi SignPNoCV SignPPM P09b SignLRM SignPRM.
Open Scope Z_scope.

Definition own_commit_or_precommit_sent (s : nstate) : Prop :=
  isSome (slot (CommitPayloads s) (MyIndex s)) = true \/ isSome (slot (PreCommitPayloads s) (MyIndex s)) = true.
Definition no_change_view_broadcast (tr : tr_t) : Prop := forall s p, In (s, CBroadcast p) tr -> p_type p <> ChangeViewT.

Theorem retransmitted_commit_is_identical cfg s0 m :
  slot (CommitPayloads s0) (MyIndex s0) = Some m -> hx s0 (makeCommit cfg) (fun r s tr => r = Some m /\ s = s0 /\ tr = []).
Proof. exact (commit_retransmission_is_the_stored_commit cfg s0 m). Qed.
Print Assumptions retransmitted_commit_is_identical.

Theorem retransmitted_precommit_is_identical s0 m :
  slot (PreCommitPayloads s0) (MyIndex s0) = Some m -> hx s0 makePreCommit (fun r s tr => r = Some m /\ s = s0 /\ tr = []).
Proof. exact (precommit_retransmission_is_the_stored_precommit s0 m). Qed.
Print Assumptions retransmitted_precommit_is_identical.

Theorem timeout_after_the_commit_keeps_the_view cfg h v s0 :
  own_commit_or_precommit_sent s0 -> 0 <= MyIndex s0 -> 0 <= PrimaryIndex s0 ->
  (IsPrimary s0 = true -> isSome (slot (PreparationPayloads s0) (PrimaryIndex s0)) = true) ->
  hx s0 (OnTimeout cfg h v) (fun _ s tr => Val tr -> ViewNumber s = ViewNumber s0 /\ no_change_view_broadcast tr).
Proof. exact (timeout_after_own_commit cfg h v false s0). Qed.
Print Assumptions timeout_after_the_commit_keeps_the_view.

Theorem change_view_request_after_the_commit_is_not_followed cfg msg s0 :
  own_commit_or_precommit_sent s0 -> 0 <= MyIndex s0 ->
  hx s0 (onChangeView cfg (init cfg) msg) (fun _ s tr => Val tr -> ViewNumber s = ViewNumber s0 /\ no_change_view_broadcast tr).
Proof. exact (changeview_after_own_commit cfg msg s0). Qed.
Print Assumptions change_view_request_after_the_commit_is_not_followed.

Theorem transaction_after_the_commit_changes_nothing cfg t s0 :
  own_commit_or_precommit_sent s0 -> 0 <= MyIndex s0 ->
  hx s0 (OnTransaction cfg t) (fun _ s tr => Val tr -> s = s0 /\ no_change_view_broadcast tr).
Proof. exact (transaction_after_own_commit cfg t s0). Qed.
Print Assumptions transaction_after_the_commit_changes_nothing.

(* whole model: every signature request in every history is for the node's header, which is the proposal of the node's view
   (timestamp, nonce, transactions of the PrepareRequest in the primary's slot, index and previous hash of the context),
   and is made only while the node holds no Commit of its own *)
Theorem block_signature_only_for_the_proposal_and_only_while_no_own_commit_is_held cfg st ev sc st' tr s h :
  Reach cfg st -> step cfg st ev sc = Ok (st', tr) -> In (s, CSign h) tr ->
  (exists b r, header s = Some b /\ h = block_hash b /\ slot (PreparationPayloads s) (PrimaryIndex s) = Some r /\
               p_body r = B0 (BPrepareRequest (b_ts b) (b_nonce b) (b_hashes b)) /\
               p_view r = ViewNumber s /\ b_index b = BlockIndex s /\ b_prev b = PrevHash s) /\
  slot (CommitPayloads s) (MyIndex s) = None.
Proof. exact (signature_only_for_the_proposal_while_uncommitted cfg st ev sc st' tr s h). Qed.
Print Assumptions block_signature_only_for_the_proposal_and_only_while_no_own_commit_is_held.

(* the same for the anti-MEV pre-commit: its data is requested only for the hash of the node's pre-header, the proposal of its
   view, and only while the node holds no PreCommit of its own *)
Theorem precommit_data_only_for_the_proposal_and_only_while_no_own_precommit_is_held cfg st ev sc st' tr s h :
  Reach cfg st -> step cfg st ev sc = Ok (st', tr) -> In (s, CSetData h) tr ->
  (exists pb r, preheader s = Some pb /\ h = preblock_hash pb /\ slot (PreparationPayloads s) (PrimaryIndex s) = Some r /\
                p_body r = B0 (BPrepareRequest (pb_ts pb) (pb_nonce pb) (pb_hashes pb)) /\
                p_view r = ViewNumber s /\ pb_index pb = BlockIndex s /\ pb_prev pb = PrevHash s) /\
  slot (PreCommitPayloads s) (MyIndex s) = None.
Proof. exact (precommit_data_only_for_the_proposal_while_no_own_precommit cfg st ev sc st' tr s h). Qed.
Print Assumptions precommit_data_only_for_the_proposal_and_only_while_no_own_precommit_is_held.

(* Histories of one epoch.  Epoch st g: st was reached from a reachable state by Start or Reset followed by any calls other than
   Start/Reset; g is the sequence of callbacks made since that initialisation, each with the node state at its instant.
   nsign g counts the block-signature requests in g; signed_commit g is the Commit built at the first of them.
   KS mi g: every key-pair callback in g reported validator index mi and every watch-only callback answered "no". *)
Theorem an_honest_node_signs_at_most_one_block_per_epoch cfg st g mi :
  Epoch cfg st g -> KS mi g -> zlen (Validators st) <= 65536 -> (nsign g <= 1)%nat.
Proof. exact (one_signature_per_epoch cfg st g mi). Qed.
Print Assumptions an_honest_node_signs_at_most_one_block_per_epoch.

(* once signed, exactly that commit stays in the node's own slot; the node is still in the view of the commit and its header is
   the block that was signed *)
Theorem the_signed_commit_is_kept_until_the_next_epoch cfg st g mi :
  Epoch cfg st g -> KS mi g -> zlen (Validators st) <= 65536 -> nsign g <> 0%nat ->
  exists c b, signed_commit g = Some c /\ slot (CommitPayloads st) mi = Some c /\ MyIndex st = mi /\ p_idx c = mi /\
              p_view c = ViewNumber st /\ sg_key (commit_sig c) = MyKey st /\ header st = Some b /\ sg_hash (commit_sig c) = block_hash b.
Proof. exact (signed_commit_is_kept cfg st g mi). Qed.
Print Assumptions the_signed_commit_is_kept_until_the_next_epoch.

(* the commit lock: after the signature, no further call of the epoch - payloads of any kind incl. recovery messages and
   PrepareRequests, timeouts, transactions, notifications - changes the view, asks for another signature, or touches the
   node's own Commit slot or index *)
Theorem after_its_commit_the_node_never_leaves_the_view cfg st g ev sc st' tr mi :
  Epoch cfg st g -> continues ev -> step cfg st ev sc = Ok (st', tr) -> KS mi (g ++ tr) -> zlen (Validators st) <= 65536 -> nsign g <> 0%nat ->
  ViewNumber st' = ViewNumber st /\ nsign tr = 0%nat /\ slot (CommitPayloads st') mi = slot (CommitPayloads st) mi /\ MyIndex st' = MyIndex st.
Proof. exact (commit_lock cfg st g ev sc st' tr mi). Qed.
Print Assumptions after_its_commit_the_node_never_leaves_the_view.

(* "once it has broadcast a commit it never asks for a view change", on the node's outgoing messages: in every history of an
   epoch, every broadcast of a ChangeView payload comes before the first block-signature request ... *)
Theorem every_change_view_of_the_epoch_precedes_the_signature cfg st g mi g1 s p g2 :
  Epoch cfg st g -> KS mi g -> zlen (Validators st) <= 65536 ->
  g = g1 ++ (s, CBroadcast p) :: g2 -> p_type p = ChangeViewT -> nsign g1 = 0%nat.
Proof. exact (change_views_precede_the_signature cfg st g mi g1 s p g2). Qed.
Print Assumptions every_change_view_of_the_epoch_precedes_the_signature.

(* ... so no call made after the node has signed - payloads of any kind, timeouts, transactions, notifications - makes it
   broadcast a ChangeView *)
Theorem after_its_commit_the_node_broadcasts_no_change_view cfg st g ev sc st' tr mi :
  Epoch cfg st g -> continues ev -> step cfg st ev sc = Ok (st', tr) -> KS mi (g ++ tr) -> zlen (Validators st) <= 65536 -> nsign g <> 0%nat ->
  no_change_view_broadcast tr.
Proof. intros HE Hc Hs Hk Hz Hn s p Hin. exact (no_change_view_after_the_signature cfg st g ev sc st' tr mi s p HE Hc Hs Hk Hz Hn Hin). Qed.
Print Assumptions after_its_commit_the_node_broadcasts_no_change_view.

(* ... and the table of view-change requests - the node's own request and those of its peers - is never written again: no view
   change is asked for, and none is recorded *)
Theorem after_its_commit_the_node_records_no_view_change_request cfg st g ev sc st' tr mi :
  Epoch cfg st g -> continues ev -> step cfg st ev sc = Ok (st', tr) -> KS mi (g ++ tr) -> zlen (Validators st) <= 65536 -> nsign g <> 0%nat ->
  ChangeViewPayloads st' = ChangeViewPayloads st.
Proof. exact (no_view_change_request_after_the_signature cfg st g ev sc st' tr mi). Qed.
Print Assumptions after_its_commit_the_node_records_no_view_change_request.

(* in every reachable state the PreCommit table holds PreCommits only and the Commit table Commits only (what the node
   re-broadcasts from its own slots is what it says it is) *)
Theorem stored_commits_and_precommits_are_what_they_say cfg st i p :
  Reach cfg st ->
  (nth_chk (PreCommitPayloads st) i = Some (Some p) -> p_type p = PreCommitT) /\
  (nth_chk (CommitPayloads st) i = Some (Some p) -> p_type p = CommitT).
Proof. intros HR. destruct (typed_reach cfg st HR) as [A B]. split; [apply A|apply B]. Qed.
Print Assumptions stored_commits_and_precommits_are_what_they_say.

(* "never broadcasts two different commits ... every retransmission of it is identical to the original" (direct retransmissions):
   from the first signature request of the epoch on, every Commit payload the node broadcasts is the commit built at that
   request, with the sender field that broadcast fills in *)
Theorem every_commit_broadcast_from_the_signature_on_is_the_signed_commit cfg st g mi g1 s p g2 :
  Epoch cfg st g -> KS mi g -> zlen (Validators st) <= 65536 ->
  g = g1 ++ (s, CBroadcast p) :: g2 -> p_type p = CommitT -> nsign g1 <> 0%nat ->
  exists c, signed_commit g1 = Some c /\ p = c <| p_idx := u16 (MyIndex s) |>.
Proof. exact (every_commit_broadcast_is_the_signed_commit cfg st g mi g1 s p g2). Qed.
Print Assumptions every_commit_broadcast_from_the_signature_on_is_the_signed_commit.

Theorem commit_broadcasts_of_an_epoch_are_identical cfg st g mi g1 s p g2 g1' s' p' g2' :
  Epoch cfg st g -> KS mi g -> zlen (Validators st) <= 65536 ->
  g = g1 ++ (s, CBroadcast p) :: g2 -> p_type p = CommitT -> nsign g1 <> 0%nat ->
  g = g1' ++ (s', CBroadcast p') :: g2' -> p_type p' = CommitT -> nsign g1' <> 0%nat ->
  MyIndex s = MyIndex s' -> p = p'.
Proof. exact (commit_broadcasts_after_the_signature_are_identical cfg st g mi g1 s p g2 g1' s' p' g2'). Qed.
Print Assumptions commit_broadcasts_of_an_epoch_are_identical.

(* The lock after the PreCommit (anti-MEV).  nset g counts the requests for pre-commit data (the SetData callback, made when the node
   builds its PreCommit) in g; set_precommit g is the PreCommit built at the first of them. *)
Theorem an_honest_node_builds_at_most_one_precommit_per_epoch cfg st g mi :
  Epoch cfg st g -> KS mi g -> zlen (Validators st) <= 65536 -> (nset g <= 1)%nat.
Proof. exact (one_precommit_per_epoch cfg st g mi). Qed.
Print Assumptions an_honest_node_builds_at_most_one_precommit_per_epoch.

Theorem the_precommit_is_kept_until_the_next_epoch cfg st g mi :
  Epoch cfg st g -> KS mi g -> zlen (Validators st) <= 65536 -> nset g <> 0%nat ->
  exists c b, set_precommit g = Some c /\ slot (PreCommitPayloads st) mi = Some c /\ MyIndex st = mi /\ p_idx c = mi /\
              p_view c = ViewNumber st /\ sg_key (precommit_data c) = MyKey st /\ preheader st = Some b /\ sg_hash (precommit_data c) = preblock_hash b.
Proof. exact (set_precommit_is_kept cfg st g mi). Qed.
Print Assumptions the_precommit_is_kept_until_the_next_epoch.

Theorem after_its_precommit_the_node_never_leaves_the_view cfg st g ev sc st' tr mi :
  Epoch cfg st g -> continues ev -> step cfg st ev sc = Ok (st', tr) -> KS mi (g ++ tr) -> zlen (Validators st) <= 65536 -> nset g <> 0%nat ->
  ViewNumber st' = ViewNumber st /\ nset tr = 0%nat /\ slot (PreCommitPayloads st') mi = slot (PreCommitPayloads st) mi /\ MyIndex st' = MyIndex st.
Proof. exact (precommit_lock cfg st g ev sc st' tr mi). Qed.
Print Assumptions after_its_precommit_the_node_never_leaves_the_view.

Theorem after_its_precommit_the_node_broadcasts_no_change_view cfg st g ev sc st' tr mi :
  Epoch cfg st g -> continues ev -> step cfg st ev sc = Ok (st', tr) -> KS mi (g ++ tr) -> zlen (Validators st) <= 65536 -> nset g <> 0%nat ->
  no_change_view_broadcast tr.
Proof. intros HE Hc Hs Hk Hz Hn s p Hin. exact (no_change_view_after_the_precommit cfg st g ev sc st' tr mi s p HE Hc Hs Hk Hz Hn Hin). Qed.
Print Assumptions after_its_precommit_the_node_broadcasts_no_change_view.

(* "never broadcasts two different pre-commits; every retransmission is identical" (direct retransmissions) *)
Theorem every_precommit_broadcast_from_the_request_on_is_the_built_precommit cfg st g mi g1 s p g2 :
  Epoch cfg st g -> KS mi g -> zlen (Validators st) <= 65536 ->
  g = g1 ++ (s, CBroadcast p) :: g2 -> p_type p = PreCommitT -> nset g1 <> 0%nat ->
  exists c, set_precommit g1 = Some c /\ p = c <| p_idx := u16 (MyIndex s) |>.
Proof. exact (every_precommit_broadcast_is_the_built_precommit cfg st g mi g1 s p g2). Qed.
Print Assumptions every_precommit_broadcast_from_the_request_on_is_the_built_precommit.

Theorem precommit_broadcasts_of_an_epoch_are_identical cfg st g mi g1 s p g2 g1' s' p' g2' :
  Epoch cfg st g -> KS mi g -> zlen (Validators st) <= 65536 ->
  g = g1 ++ (s, CBroadcast p) :: g2 -> p_type p = PreCommitT -> nset g1 <> 0%nat ->
  g = g1' ++ (s', CBroadcast p') :: g2' -> p_type p' = PreCommitT -> nset g1' <> 0%nat ->
  MyIndex s = MyIndex s' -> p = p'.
Proof. exact (precommit_broadcasts_are_identical cfg st g mi g1 s p g2 g1' s' p' g2'). Qed.
Print Assumptions precommit_broadcasts_of_an_epoch_are_identical.

(* retransmission inside a recovery message: the building block - wherever it is called from, sendRecoveryMessage of a node
   whose own Commit slot is filled broadcasts a recovery message of the node's height and view that carries that Commit
   whole, and changes nothing *)
Theorem recovery_message_of_a_committed_node_carries_its_commit s0 cm :
  0 <= MyIndex s0 -> slot (CommitPayloads s0) (MyIndex s0) = Some cm ->
  hx s0 sendRecoveryMessage (fun _ s tr =>
    Val tr -> s = s0 /\
    exists sb p, In (sb, CBroadcast p) tr /\ p_type p = RecoveryMessageT /\
      p_height p = BlockIndex s0 /\ p_view p = ViewNumber s0 /\ p_idx p = u16 (MyIndex s0) /\
      (forall q, In q (to_p0 cm) -> carries p q)).
Proof. exact (sendRecoveryMessage_carries_own_commit s0 cm). Qed.
Print Assumptions recovery_message_of_a_committed_node_carries_its_commit.

(* over all histories of an epoch: once the node has signed, every RecoveryRequest it is given is answered with a recovery
   message of its height and of the signed commit's view that carries the commit built at the signature request *)
Theorem every_recovery_request_after_the_signature_is_answered_with_the_signed_commit cfg st g mi msg :
  Epoch cfg st g -> KS mi g -> zlen (Validators st) <= 65536 -> nsign g <> 0%nat -> 0 <= mi ->
  exists c, signed_commit g = Some c /\
    hx st (onRecoveryRequest cfg msg) (fun _ s tr =>
      Val tr -> s = st /\
      exists sb p, In (sb, CBroadcast p) tr /\ p_type p = RecoveryMessageT /\
        p_height p = BlockIndex st /\ p_view p = p_view c /\ p_idx p = u16 mi /\
        (forall q, In q (to_p0 c) -> carries p q)).
Proof. exact (recovery_answer_after_the_signature_carries_the_signed_commit cfg st g mi msg). Qed.
Print Assumptions every_recovery_request_after_the_signature_is_answered_with_the_signed_commit.

(* the same on sendRecoveryMessage itself - the one place where the library builds a recovery message, whatever the occasion
   (RecoveryRequest, timeout after the commit, a peer's ChangeView) - from the state reached by ANY history of an epoch *)
Theorem recovery_message_built_after_the_signature_carries_the_signed_commit cfg st g mi :
  Epoch cfg st g -> KS mi g -> zlen (Validators st) <= 65536 -> nsign g <> 0%nat -> 0 <= mi ->
  exists c, signed_commit g = Some c /\
    hx st sendRecoveryMessage (fun _ s tr =>
      Val tr -> s = st /\
      exists sb p, In (sb, CBroadcast p) tr /\ p_type p = RecoveryMessageT /\
        p_height p = BlockIndex st /\ p_view p = p_view c /\ p_idx p = u16 mi /\
        (forall q, In q (to_p0 c) -> carries p q)).
Proof. exact (recovery_message_after_the_signature_carries_the_signed_commit cfg st g mi). Qed.
Print Assumptions recovery_message_built_after_the_signature_carries_the_signed_commit.

(* anti-MEV: after the pre-commit was built the recovery message carries it, in its view *)
Theorem recovery_message_built_after_the_precommit_carries_it cfg st g mi :
  Epoch cfg st g -> KS mi g -> zlen (Validators st) <= 65536 -> nset g <> 0%nat -> 0 <= mi ->
  exists c, set_precommit g = Some c /\
    hx st sendRecoveryMessage (fun _ s tr =>
      Val tr -> s = st /\
      exists sb p, In (sb, CBroadcast p) tr /\ p_type p = RecoveryMessageT /\
        p_height p = BlockIndex st /\ p_view p = p_view c /\ p_idx p = u16 mi /\
        (forall q, In q (to_p0 c) -> carries p q)).
Proof. exact (recovery_message_after_the_precommit_carries_it cfg st g mi). Qed.
Print Assumptions recovery_message_built_after_the_precommit_carries_it.
