(* C03 Non-equivocation and commit lock - what is proved (node model), for EVERY state in which the node's own Commit or
   PreCommit slot is filled and every script under which it is a validator that is not watch-only ([Val]):
   - a retransmitted Commit / PreCommit is the stored one: nothing is signed again and nothing changes;
   - a timeout, a ChangeView from a peer (for a higher view or not) and a transaction leave the view untouched and
     broadcast no ChangeView.
   For every reachable state and script (whole model, P02.v): the node asks the application for a block signature only
   for the hash of its header - the proposal of its current view held in the primary's slot - and only while its own
   Commit slot is empty.
   For every history of one initialisation epoch (Start or Reset, then any other API calls, any callback answers) in which
   the application reports one validator index in its key-pair callbacks and the validator list has at most 2^16 entries
   (Sign.v, SignEpoch.v): the node asks for at most one block signature, and once it has signed, its own Commit slot keeps
   that commit - through re-verification of stored commits, view changes and everything else - until the next epoch.
   The remaining site of the lock (a PrepareRequest arriving after the commit) and the history-level clauses (no two
   proposals/responses per view, no two commits per height, view monotonicity, recovery contents) are NOT proved; they
   are decided by the monitors on the real library over the generated histories (DESIGN.md section 0.1). *)
From Coq Require Import ZArith List.
From DbftV Require Import P03 P02 SignEpoch.
Open Scope Z_scope.

Definition own_commit_or_precommit_sent (s : nstate) : Prop :=
  isSome (slot (CommitPayloads s) (MyIndex s)) = true \/ isSome (slot (PreCommitPayloads s) (MyIndex s)) = true.
Definition no_change_view_broadcast (tr : tr_t) : Prop := forall s p, In (s, CBroadcast p) tr -> p_type p <> ChangeViewT.

Theorem retransmitted_commit_is_identical cfg s0 m :
  slot (CommitPayloads s0) (MyIndex s0) = Some m -> hx s0 (makeCommit cfg) (fun r s tr => r = Some m /\ s = s0 /\ tr = []).
Proof. exact (commit_retransmission_is_the_stored_commit cfg s0 m). Qed.
Print Assumptions retransmitted_commit_is_identical.

Theorem retransmitted_precommit_is_identical s0 m :
  slot (PreCommitPayloads s0) (MyIndex s0) = Some m -> hx s0 makePreCommit (fun r s tr => r = Some m /\ s = s0 /\ tr = []).
Proof. exact (precommit_retransmission_is_the_stored_precommit s0 m). Qed.
Print Assumptions retransmitted_precommit_is_identical.

Theorem timeout_after_the_commit_keeps_the_view cfg h v s0 :
  own_commit_or_precommit_sent s0 -> 0 <= MyIndex s0 -> 0 <= PrimaryIndex s0 ->
  (IsPrimary s0 = true -> isSome (slot (PreparationPayloads s0) (PrimaryIndex s0)) = true) ->
  hx s0 (OnTimeout cfg h v) (fun _ s tr => Val tr -> ViewNumber s = ViewNumber s0 /\ no_change_view_broadcast tr).
Proof. exact (timeout_after_own_commit cfg h v false s0). Qed.
Print Assumptions timeout_after_the_commit_keeps_the_view.

Theorem change_view_request_after_the_commit_is_not_followed cfg msg s0 :
  own_commit_or_precommit_sent s0 -> 0 <= MyIndex s0 ->
  hx s0 (onChangeView cfg (init cfg) msg) (fun _ s tr => Val tr -> ViewNumber s = ViewNumber s0 /\ no_change_view_broadcast tr).
Proof. exact (changeview_after_own_commit cfg msg s0). Qed.
Print Assumptions change_view_request_after_the_commit_is_not_followed.

Theorem transaction_after_the_commit_changes_nothing cfg t s0 :
  own_commit_or_precommit_sent s0 -> 0 <= MyIndex s0 ->
  hx s0 (OnTransaction cfg t) (fun _ s tr => Val tr -> s = s0 /\ no_change_view_broadcast tr).
Proof. exact (transaction_after_own_commit cfg t s0). Qed.
Print Assumptions transaction_after_the_commit_changes_nothing.

(* whole model: every signature request in every history is for the node's header, which is the proposal of the node's view
   (timestamp, nonce, transactions of the PrepareRequest in the primary's slot, index and previous hash of the context),
   and is made only while the node holds no Commit of its own *)
Theorem block_signature_only_for_the_proposal_and_only_while_no_own_commit_is_held cfg st ev sc st' tr s h :
  Reach cfg st -> step cfg st ev sc = Ok (st', tr) -> In (s, CSign h) tr ->
  (exists b r, header s = Some b /\ h = block_hash b /\ slot (PreparationPayloads s) (PrimaryIndex s) = Some r /\
               p_body r = B0 (BPrepareRequest (b_ts b) (b_nonce b) (b_hashes b)) /\
               p_view r = ViewNumber s /\ b_index b = BlockIndex s /\ b_prev b = PrevHash s) /\
  slot (CommitPayloads s) (MyIndex s) = None.
Proof. exact (signature_only_for_the_proposal_while_uncommitted cfg st ev sc st' tr s h). Qed.
Print Assumptions block_signature_only_for_the_proposal_and_only_while_no_own_commit_is_held.

(* one block signature per epoch: Epoch st g - st was reached by Start or Reset followed by any calls other than Start/Reset,
   g is the sequence of callbacks made since; nsign counts the signature requests in it; KS mi g - every key-pair callback in
   g reported index mi *)
Theorem an_honest_node_signs_at_most_one_block_per_epoch cfg st g mi :
  Epoch cfg st g -> KS mi g -> zlen (Validators st) <= 65536 -> (nsign g <= 1)%nat.
Proof. exact (one_signature_per_epoch cfg st g mi). Qed.
Print Assumptions an_honest_node_signs_at_most_one_block_per_epoch.

(* once signed, the commit stays in the node's own slot for the rest of the epoch, carries the node's index and key, its view
   is never ahead of the node's, and while its view is the current one it is a signature of the node's header *)
Theorem the_signed_commit_is_kept_until_the_next_epoch cfg st g mi :
  Epoch cfg st g -> KS mi g -> zlen (Validators st) <= 65536 -> nsign g <> 0%nat ->
  exists c, slot (CommitPayloads st) mi = Some c /\ MyIndex st = mi /\ p_idx c = mi /\ p_view c <= ViewNumber st /\
            sg_key (commit_sig c) = MyKey st /\
            (p_view c = ViewNumber st -> exists b, header st = Some b /\ sg_hash (commit_sig c) = block_hash b).
Proof. exact (signed_commit_is_kept cfg st g mi). Qed.
Print Assumptions the_signed_commit_is_kept_until_the_next_epoch.
