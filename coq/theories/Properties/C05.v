(* C05 One decision per height, quiescence until Reset (node model, all reachable states, all scripts).
   Proved here: the hand-over and broadcast clauses. The re-initialisation and early-payload clauses are local theorems at the end of this file; that the
   kept payloads are then replayed, and that nothing else of earlier heights influences later decisions, is exercised by the
   correspondence run and the C05 monitors. *)
From Coq Require Import ZArith List.
From DbftV Require Import Gates P11 P05.
Open Scope Z_scope.

(* the block-acceptance callback is invoked only while no block has been accepted since the last (re)initialisation at
   view 0: together with the model's [blockProcessed := true] after a successful call (and nothing but a view-0
   initialisation clearing it) this is "at most one successful hand-over per height" *)
Theorem block_handed_over_only_while_undecided cfg st ev sc st' tr s h e :
  Reach cfg st -> step cfg st ev sc = Ok (st', tr) -> In (s, CProcessBlock h e) tr -> blockProcessed s = false.
Proof. exact (fun HR Hs Hin => proj2 (processblock_gate cfg st ev sc st' tr s h e HR Hs Hin)). Qed.
Print Assumptions block_handed_over_only_while_undecided.

(* from the decision until Reset nothing is broadcast except recovery messages (the replies to recovery requests) *)
Theorem after_the_decision_only_recovery_messages_are_broadcast cfg st ev sc st' tr s p :
  Reach cfg st -> step cfg st ev sc = Ok (st', tr) -> In (s, CBroadcast p) tr -> blockProcessed s = true -> p_type p = RecoveryMessageT.
Proof.
  exact (fun HR Hs Hin Hb =>
           match mtype_eq_dec (p_type p) RecoveryMessageT with
           | left E => E
           | right Ne => False_ind _ (eq_ind true (fun b => b = false -> False) (fun H => Bool.diff_true_false H) _ (eq_sym Hb)
                                          (broadcast_undecided cfg st ev sc st' tr s p HR Hs Hin Ne))
           end).
Qed.
Print Assumptions after_the_decision_only_recovery_messages_are_broadcast.

(* quiescence (every state with the height decided, every script): timeouts and transactions change nothing and make no
   callback but watch-only queries; a consensus payload of that height other than a recovery request only notes its sender *)
Theorem timeout_after_the_decision_changes_nothing cfg h v s0 :
  blockProcessed s0 = true -> hx s0 (OnTimeout cfg h v) (fun _ s tr => s = s0 /\ Forall (fun sc => exists b, snd sc = CWatchOnly b) tr).
Proof. exact (timeout_after_the_decision cfg h v false s0). Qed.
Print Assumptions timeout_after_the_decision_changes_nothing.

Theorem transaction_after_the_decision_changes_nothing cfg t s0 :
  blockProcessed s0 = true -> hx s0 (OnTransaction cfg t) (fun _ s tr => s = s0 /\ Forall (fun sc => exists b, snd sc = CWatchOnly b) tr).
Proof. exact (transaction_after_the_decision cfg t s0). Qed.
Print Assumptions transaction_after_the_decision_changes_nothing.

Theorem payload_after_the_decision_only_notes_the_sender cfg ic msg s0 :
  blockProcessed s0 = true -> p_type msg <> RecoveryRequestT -> p_idx msg < N s0 -> p_height msg = BlockIndex s0 ->
  ((p_view msg >? ViewNumber s0) && negb (mtype_eqb (p_type msg) ChangeViewT) && negb (mtype_eqb (p_type msg) RecoveryMessageT)) = false ->
  hx s0 (OnReceive cfg ic msg)
     (fun _ s tr => (exists l, s = s0 <| LastSeenMessage := l |>) /\ Forall (fun sc => exists b, snd sc = CWatchOnly b) tr).
Proof. exact (payload_after_the_decision cfg ic msg s0). Qed.
Print Assumptions payload_after_the_decision_only_notes_the_sender.

(* clean re-initialisation (every state): a Reset / Start asks the application for the previous hash, the height, the
   validator list and the time per block, in that order, and - before it replays what was kept for the new height - leaves
   the node at the ledger's next height, view 0, with exactly those values, its own index and key as the key-pair callback
   answered, every payload table empty and sized to the new validator list, no proposal, transactions, header or block,
   nothing decided, no subscription *)
Theorem reset_takes_everything_afresh cfg ts s0 :
  hx s0 (reset cfg 0 ts) (fun _ s tr =>
    exists ph h vs tpb i k rest,
      map snd tr = CPrevHash ph :: CHeight h :: CValidators vs :: CTimePerBlock tpb :: rest /\
      In (CKeyPair i k) rest /\ fresh_epoch s ph h vs tpb i k /\ lastBlockTimestamp s = ts).
Proof. exact (reset_at_view_0_takes_everything_afresh cfg ts s0). Qed.
Print Assumptions reset_takes_everything_afresh.

(* a payload received early for a later height is kept for that height and changes nothing else (every state) *)
Theorem early_payload_for_a_later_height_is_kept cfg ic msg s0 :
  p_idx msg < N s0 -> BlockIndex s0 < p_height msg -> cache_ready s0 = true ->
  hx s0 (OnReceive cfg ic msg) (fun _ s tr =>
    tr = [] /\
    let old := match assoc_get (cache s0) (p_height msg) with Some x => x | None => empty_inbox end in
    s = s0 <| cache := assoc_put (cache s0) (p_height msg) (inbox_with old msg) |> /\
    assoc_get (cache s) (p_height msg) = Some (inbox_with old msg)).
Proof. exact (future_height_payload_is_kept cfg ic msg s0). Qed.
Print Assumptions early_payload_for_a_later_height_is_kept.
