(* C05 One decision per height, quiescence until Reset (node model, all reachable states, all scripts).
   Proved here: the hand-over and broadcast clauses. The clean re-initialisation / cache clauses are exercised by the
   correspondence run and the C05 monitors (DESIGN.md C05). *)
From Coq Require Import ZArith List.
From DbftV Require Import Gates P11.
Open Scope Z_scope.

(* the block-acceptance callback is invoked only while no block has been accepted since the last (re)initialisation at
   view 0: together with the model's [blockProcessed := true] after a successful call (and nothing but a view-0
   initialisation clearing it) this is "at most one successful hand-over per height" *)
Theorem block_handed_over_only_while_undecided cfg st ev sc st' tr s h e :
  Reach cfg st -> step cfg st ev sc = Ok (st', tr) -> In (s, CProcessBlock h e) tr -> blockProcessed s = false.
Proof. exact (fun HR Hs Hin => proj2 (processblock_gate cfg st ev sc st' tr s h e HR Hs Hin)). Qed.
Print Assumptions block_handed_over_only_while_undecided.

(* from the decision until Reset nothing is broadcast except recovery messages (the replies to recovery requests) *)
Theorem after_the_decision_only_recovery_messages_are_broadcast cfg st ev sc st' tr s p :
  Reach cfg st -> step cfg st ev sc = Ok (st', tr) -> In (s, CBroadcast p) tr -> blockProcessed s = true -> p_type p = RecoveryMessageT.
Proof.
  exact (fun HR Hs Hin Hb =>
           match mtype_eq_dec (p_type p) RecoveryMessageT with
           | left E => E
           | right Ne => False_ind _ (eq_ind true (fun b => b = false -> False) (fun H => Bool.diff_true_false H) _ (eq_sym Hb)
                                          (broadcast_undecided cfg st ev sc st' tr s p HR Hs Hin Ne))
           end).
Qed.
Print Assumptions after_the_decision_only_recovery_messages_are_broadcast.

(* quiescence (every state with the height decided, every script): timeouts and transactions change nothing and make no
   callback but watch-only queries; a consensus payload of that height other than a recovery request only notes its sender *)
Theorem timeout_after_the_decision_changes_nothing cfg h v s0 :
  blockProcessed s0 = true -> hx s0 (OnTimeout cfg h v) (fun _ s tr => s = s0 /\ Forall (fun sc => exists b, snd sc = CWatchOnly b) tr).
Proof. exact (timeout_after_the_decision cfg h v false s0). Qed.
Print Assumptions timeout_after_the_decision_changes_nothing.

Theorem transaction_after_the_decision_changes_nothing cfg t s0 :
  blockProcessed s0 = true -> hx s0 (OnTransaction cfg t) (fun _ s tr => s = s0 /\ Forall (fun sc => exists b, snd sc = CWatchOnly b) tr).
Proof. exact (transaction_after_the_decision cfg t s0). Qed.
Print Assumptions transaction_after_the_decision_changes_nothing.

Theorem payload_after_the_decision_only_notes_the_sender cfg ic msg s0 :
  blockProcessed s0 = true -> p_type msg <> RecoveryRequestT -> p_idx msg < N s0 -> p_height msg = BlockIndex s0 ->
  ((p_view msg >? ViewNumber s0) && negb (mtype_eqb (p_type msg) ChangeViewT) && negb (mtype_eqb (p_type msg) RecoveryMessageT)) = false ->
  hx s0 (OnReceive cfg ic msg)
     (fun _ s tr => (exists l, s = s0 <| LastSeenMessage := l |>) /\ Forall (fun sc => exists b, snd sc = CWatchOnly b) tr).
Proof. exact (payload_after_the_decision cfg ic msg s0). Qed.
Print Assumptions payload_after_the_decision_only_notes_the_sender.
