(* C05 One decision per height, quiescence until Reset (node model, all reachable states, all scripts).
   Proved here: the hand-over and broadcast clauses. The clean re-initialisation / cache clauses are exercised by the
   correspondence run and the C05 monitors (DESIGN.md C05). *)
From Coq Require Import ZArith List.
From DbftV Require Import Gates.
Open Scope Z_scope.

(* the block-acceptance callback is invoked only while no block has been accepted since the last (re)initialisation at
   view 0: together with the model's [blockProcessed := true] after a successful call (and nothing but a view-0
   initialisation clearing it) this is "at most one successful hand-over per height" *)
Theorem block_handed_over_only_while_undecided cfg st ev sc st' tr s h e :
  Reach cfg st -> step cfg st ev sc = Ok (st', tr) -> In (s, CProcessBlock h e) tr -> blockProcessed s = false.
Proof. exact (fun HR Hs Hin => proj2 (processblock_gate cfg st ev sc st' tr s h e HR Hs Hin)). Qed.
Print Assumptions block_handed_over_only_while_undecided.

(* from the decision until Reset nothing is broadcast except recovery messages (the replies to recovery requests) *)
Theorem after_the_decision_only_recovery_messages_are_broadcast cfg st ev sc st' tr s p :
  Reach cfg st -> step cfg st ev sc = Ok (st', tr) -> In (s, CBroadcast p) tr -> blockProcessed s = true -> p_type p = RecoveryMessageT.
Proof.
  exact (fun HR Hs Hin Hb =>
           match mtype_eq_dec (p_type p) RecoveryMessageT with
           | left E => E
           | right Ne => False_ind _ (eq_ind true (fun b => b = false -> False) (fun H => Bool.diff_true_false H) _ (eq_sym Hb)
                                          (broadcast_undecided cfg st ev sc st' tr s p HR Hs Hin Ne))
           end).
Qed.
Print Assumptions after_the_decision_only_recovery_messages_are_broadcast.
