(* C19 Reference payload/block/crypto code: what is provable here is the structure of the Merkle tree, that the Coq
   SHA-256 the trees are compared with is the standard function on its test vectors, and the logic of the recovery-message
   compaction and reconstruction (Ref/Recovery.v: AddPayload, Get*, and which fields the codec carries). Collision resistance of SHA-256,
   ECDSA soundness and the robustness of encoding/gob's decoder are NOT provable (DESIGN.md C19); they are hypotheses
   (collision freedom) or exercised only (monitors of `verifh ref`). *)
From Coq Require Import List NArith.
From DbftV Require Import Sha256 Merkle RefModel Recovery.
Import ListNotations.

(* any leaf or order change within a list of the same length changes the root - for every pair function without collisions *)
Theorem merkle_root_changes_with_any_leaf_or_order_change (hash : Type) (H : hash -> hash -> hash) :
  (forall a b c d, H a b = H c d -> a = c /\ b = d) ->
  forall l1 l2, length l1 = length l2 -> l1 <> [] -> root hash H l1 = root hash H l2 -> l1 = l2.
Proof. exact (root_inj_same_length hash H). Qed.
Print Assumptions merkle_root_changes_with_any_leaf_or_order_change.

Theorem concrete_merkle_root_binds_leaves :
  (forall a b c d, merkle_H a b = merkle_H c d -> a = c /\ b = d) ->
  forall l1 l2, length l1 = length l2 -> l1 <> [] -> merkle_root l1 = merkle_root l2 -> l1 = l2.
Proof. exact merkle_root_binds_leaves. Qed.
Print Assumptions concrete_merkle_root_binds_leaves.

(* known finding D11: the clause "a Merkle root changes with any leaf change" fails across lengths, for EVERY hash function *)
Theorem merkle_root_duplicate_last_leaf_refuted (hash : Type) (H : hash -> hash -> hash) a b c :
  root hash H [a; b; c] = root hash H [a; b; c; c].
Proof. exact (root_dup_last_refuted hash H a b c). Qed.
Print Assumptions merkle_root_duplicate_last_leaf_refuted.

(* the SHA-256 used on the Coq side is the standard one on the FIPS 180-2 vector "abc" (and is compared with Go's
   crypto/sha256 on every hash of every run) *)
Theorem sha256_test_vector : sha256 [97; 98; 99]%N =
  [0xba;0x78;0x16;0xbf;0x8f;0x01;0xcf;0xea;0x41;0x41;0x40;0xde;0x5d;0xae;0x22;0x23;
   0xb0;0x03;0x61;0xa3;0x96;0x17;0x7a;0x9c;0xb4;0x10;0xff;0x61;0xf2;0x00;0x15;0xad]%N.
Proof. exact sha256_abc. Qed.
Print Assumptions sha256_test_vector.

(* ------------------------------------------------------------------------------------------------------------------
   Recovery-message compaction / reconstruction (internal/consensus/recovery_message.go), for EVERY packing sequence.
   `phash` is the payload hash: any function of the payload's content. *)

(* "a proposal rebuilt from a recovery message has the original's hash": the proposal packed last - whatever was packed
   before it, whatever but a proposal after it - is rebuilt as itself under a recovery payload of its height and view *)
Theorem proposal_rebuilt_from_a_recovery_message_is_the_original (phash : payload -> bytes) m before p after r :
  is_req p = true -> wf_body (p_body p) -> no_req after ->
  p_height r = p_height p -> p_view r = p_view p ->
  get_request (build phash m (before ++ p :: after)) r (p_index p) = Some p.
Proof. exact (rebuilt_request_is_the_original phash m before p after r). Qed.
Print Assumptions proposal_rebuilt_from_a_recovery_message_is_the_original.

Theorem proposal_rebuilt_from_a_recovery_message_has_the_original_hash (phash : payload -> bytes) m before p after r q :
  is_req p = true -> wf_body (p_body p) -> no_req after ->
  p_height r = p_height p -> p_view r = p_view p ->
  get_request (build phash m (before ++ p :: after)) r (p_index p) = Some q -> phash q = phash p.
Proof. exact (rebuilt_request_has_the_original_hash phash m before p after r q). Qed.
Print Assumptions proposal_rebuilt_from_a_recovery_message_has_the_original_hash.

(* "so that rebuilt responses match it": on the packing side every rebuilt response names that proposal's hash, one per
   packed response, in the packing order *)
Theorem rebuilt_responses_match_the_packed_proposal (phash : payload -> bytes) m before p after r :
  is_req p = true -> no_req after ->
  get_responses (build phash m (before ++ p :: after)) r =
  map (fun i => from r i (BPrepareResponse (phash p))) (r_preps (build phash m before) ++ map p_index (filter is_resp after)).
Proof. exact (rebuilt_responses_name_the_packed_request phash m before p after r). Qed.
Print Assumptions rebuilt_responses_match_the_packed_proposal.

(* packed commits, pre-commits and ChangeViews: none dropped, duplicated or reordered, whatever else is packed *)
Theorem packed_commits_are_all_rebuilt_in_order (phash : payload -> bytes) ps m r :
  get_commits (build phash m ps) r = get_commits m r ++ sel is_commit (rebuild_commit r) ps.
Proof. exact (build_commits phash ps m r). Qed.
Print Assumptions packed_commits_are_all_rebuilt_in_order.
Theorem packed_precommits_are_all_rebuilt_in_order (phash : payload -> bytes) ps m r :
  get_precommits (build phash m ps) r = get_precommits m r ++ sel is_precommit (rebuild_precommit r) ps.
Proof. exact (build_precommits phash ps m r). Qed.
Print Assumptions packed_precommits_are_all_rebuilt_in_order.
Theorem packed_change_views_are_all_rebuilt_in_order (phash : payload -> bytes) ps m r :
  get_cvs (build phash m ps) r = get_cvs m r ++ sel is_cv (rebuild_cv r) ps.
Proof. exact (build_cvs phash ps m r). Qed.
Print Assumptions packed_change_views_are_all_rebuilt_in_order.

(* a Commit / PreCommit of the recovery payload's height and view is rebuilt as itself (a retransmission inside a recovery
   message is identical to the original); under any header the signer and the signature survive *)
Theorem commit_rebuilt_under_its_own_height_and_view_is_the_original r p :
  is_commit p = true -> wf_body (p_body p) -> p_height p = p_height r -> p_view p = p_view r -> rebuild_commit r p = p.
Proof. exact (rebuild_commit_id r p). Qed.
Print Assumptions commit_rebuilt_under_its_own_height_and_view_is_the_original.
Theorem precommit_rebuilt_under_its_own_height_and_view_is_the_original r p :
  is_precommit p = true -> wf_body (p_body p) -> p_height p = p_height r -> p_view p = p_view r -> rebuild_precommit r p = p.
Proof. exact (rebuild_precommit_id r p). Qed.
Print Assumptions precommit_rebuilt_under_its_own_height_and_view_is_the_original.
Theorem rebuilt_commit_keeps_signer_and_signature r p sig : p_body p = BCommit sig -> length sig = 64%nat ->
  p_index (rebuild_commit r p) = p_index p /\ p_body (rebuild_commit r p) = BCommit sig /\
  p_height (rebuild_commit r p) = p_height r /\ p_view (rebuild_commit r p) = p_view r.
Proof. exact (rebuild_commit_keeps_signer_and_signature r p sig). Qed.
Print Assumptions rebuilt_commit_keeps_signer_and_signature.

(* ... but a Commit of ANOTHER view than the recovery message's travels relabelled (the view kept in the compact entry is ignored) *)
Theorem commit_of_another_view_is_relabelled_by_the_recovery_message r p : p_view p <> p_view r -> rebuild_commit r p <> p.
Proof. exact (rebuild_commit_relabels_another_view r p). Qed.
Print Assumptions commit_of_another_view_is_relabelled_by_the_recovery_message.

(* across encode/decode: everything the message rebuilds survives, except ... *)
Theorem codec_keeps_request_commits_precommits_change_views m r i :
  get_request (transmit m) r i = get_request m r i /\ get_commits (transmit m) r = get_commits m r /\
  get_precommits (transmit m) r = get_precommits m r /\ get_cvs (transmit m) r = get_cvs m r.
Proof. exact (conj (transmit_keeps_request m r i) (conj (transmit_keeps_commits m r) (conj (transmit_keeps_precommits m r) (transmit_keeps_cvs m r)))). Qed.
Print Assumptions codec_keeps_request_commits_precommits_change_views.
Theorem codec_keeps_responses_when_no_proposal_is_packed m r : r_req m = None -> get_responses (transmit m) r = get_responses m r.
Proof. exact (transmit_keeps_responses_without_request m r). Qed.
Print Assumptions codec_keeps_responses_when_no_proposal_is_packed.
(* ... known finding D19, here for EVERY message that packs the proposal: the receiver rebuilds no response at all *)
Theorem codec_keeps_responses_packed_with_the_proposal_refuted m r : r_req m <> None -> get_responses (transmit m) r = [].
Proof. exact (transmit_loses_responses_packed_with_request m r). Qed.
Print Assumptions codec_keeps_responses_packed_with_the_proposal_refuted.

(* the payload codec at field level: "encoding then decoding any payload the decoder accepts reproduces it" - what the
   decoder returns is a fixed point of encode/decode, and the only payloads the codec changes are ChangeViews that ask for
   another view than the next one (the library itself only ever asks for view + 1) *)
Theorem decoded_payload_is_reproduced_by_the_codec p : transmit_payload (transmit_payload p) = transmit_payload p.
Proof. exact (transmit_payload_idem p). Qed.
Print Assumptions decoded_payload_is_reproduced_by_the_codec.
Theorem codec_changes_only_change_views_for_another_view_than_the_next p :
  (forall nv ts, p_body p = BChangeView nv ts -> nv = (p_view p + 1) mod 256)%N <-> transmit_payload p = p.
Proof. exact (transmit_payload_id p). Qed.
Print Assumptions codec_changes_only_change_views_for_another_view_than_the_next.

(* non-vacuity: a concrete packing sequence (a response, the proposal, a commit, a pre-commit, another response) meets the
   hypotheses, and the refuted clause bites on it *)
Example recovery_hypotheses_inhabited :
  let ph := fun p : payload => [p_index p; p_view p]%N in
  let req := mkP 10 1 2 (BPrepareRequest 5 77 [[1]; [2]])%N in
  let ps := [mkP 10 1 3 (BPrepareResponse [9]); req; mkP 10 1 0 (BCommit (repeat 7 64)); mkP 10 1 3 (BPreCommit 258);
             mkP 10 1 1 (BPrepareResponse [9])]%N in
  let r := mkP 10 1 0 BOther%N in
  let m := build ph (new_rmsg None) ps in
  is_req req = true /\ wf_body (p_body req) /\ no_req (skipn 2 ps) /\
  get_request m r 2%N = Some req /\ length (get_responses m r) = 2%nat /\ get_responses (transmit m) r = [] /\
  get_commits m r = [mkP 10 1 0 (BCommit (repeat 7 64))]%N /\ get_precommits m r = [mkP 10 1 3 (BPreCommit 258)]%N.
Proof. cbv zeta. repeat split; try reflexivity; vm_compute; reflexivity. Qed.
