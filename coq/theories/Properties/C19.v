(* C19 Reference payload/block/crypto code: what is provable here is the structure of the Merkle tree and that the Coq
   SHA-256 the trees are compared with is the standard function on its test vectors. Collision resistance of SHA-256,
   ECDSA soundness and the robustness of encoding/gob's decoder are NOT provable (DESIGN.md C19); they are hypotheses
   (collision freedom) or exercised only (monitors of `verifh ref`). *)
From Coq Require Import List NArith.
From DbftV Require Import Sha256 Merkle RefModel.
Import ListNotations.

(* any leaf or order change within a list of the same length changes the root - for every pair function without collisions *)
Theorem merkle_root_changes_with_any_leaf_or_order_change (hash : Type) (H : hash -> hash -> hash) :
  (forall a b c d, H a b = H c d -> a = c /\ b = d) ->
  forall l1 l2, length l1 = length l2 -> l1 <> [] -> root hash H l1 = root hash H l2 -> l1 = l2.
Proof. exact (root_inj_same_length hash H). Qed.
Print Assumptions merkle_root_changes_with_any_leaf_or_order_change.

Theorem concrete_merkle_root_binds_leaves :
  (forall a b c d, merkle_H a b = merkle_H c d -> a = c /\ b = d) ->
  forall l1 l2, length l1 = length l2 -> l1 <> [] -> merkle_root l1 = merkle_root l2 -> l1 = l2.
Proof. exact merkle_root_binds_leaves. Qed.
Print Assumptions concrete_merkle_root_binds_leaves.

(* known finding D11: the clause "a Merkle root changes with any leaf change" fails across lengths, for EVERY hash function *)
Theorem merkle_root_duplicate_last_leaf_refuted (hash : Type) (H : hash -> hash -> hash) a b c :
  root hash H [a; b; c] = root hash H [a; b; c; c].
Proof. exact (root_dup_last_refuted hash H a b c). Qed.
Print Assumptions merkle_root_duplicate_last_leaf_refuted.

(* the SHA-256 used on the Coq side is the standard one on the FIPS 180-2 vector "abc" (and is compared with Go's
   crypto/sha256 on every hash of every run) *)
Theorem sha256_test_vector : sha256 [97; 98; 99]%N =
  [0xba;0x78;0x16;0xbf;0x8f;0x01;0xcf;0xea;0x41;0x41;0x40;0xde;0x5d;0xae;0x22;0x23;
   0xb0;0x03;0x61;0xa3;0x96;0x17;0x7a;0x9c;0xb4;0x10;0xff;0x61;0xf2;0x00;0x15;0xad]%N.
Proof. exact sha256_abc. Qed.
Print Assumptions sha256_test_vector.
