(* Non-vacuity: concrete, non-trivial states and histories that meet the hypotheses of the property theorems.
   A node of four validators (index 2, a backup at height 1) is started on a fresh instance, receives the primary's
   proposal with one transaction it does not hold, and asks the application for it.  Everything is computed with the
   executable model (vm_compute). *)
From Coq Require Import ZArith List.
From DbftV Require Import Gates NoPanic P10 P12 Replay D1 S1 V1 SignLApi SignLNoCV SignLCM SignPNoCV.
From DbftV Require Spec_dbft Spec_antiMEV.
Open Scope Z_scope.

Definition cfg0 := mkCfg 1 (-1) false.
Definition sc0 : list call :=
  [CPrevHash []; CHeight 0; CValidators [10;11;12;13]; CTimePerBlock 1000; CKeyPair 2 12; CWatchOnly false; CStopTxFlow; CWatchOnly false; CTimerReset 1 0 2000].
Definition run0 := Eval vm_compute in step cfg0 fresh_state (EStart 0) sc0.
Definition st0 : nstate := match run0 with Ok (s, _) => s | _ => fresh_state end.
Definition tr0 : tr_t := match run0 with Ok (_, tr) => tr | _ => [] end.
Lemma step0 : step cfg0 fresh_state (EStart 0) sc0 = Ok (st0, tr0). Proof. vm_compute. reflexivity. Qed.

Definition t7 : tx := 7.
Definition req := mkP 1 0 1 (B0 (BPrepareRequest 5000 9 [tx_hash t7])).
Definition sc1 : list call :=
  [CVerifyPrepareRequest req true; CWatchOnly false; CWatchOnly false; CTimerExtend 666; CGetTx (tx_hash t7) None; CRequestTx [tx_hash t7]].
Definition run1 := Eval vm_compute in step cfg0 st0 (EReceive req) sc1.
Definition st1 : nstate := match run1 with Ok (s, _) => s | _ => fresh_state end.
Definition tr1 : tr_t := match run1 with Ok (_, tr) => tr | _ => [] end.
Lemma step1 : step cfg0 st0 (EReceive req) sc1 = Ok (st1, tr1). Proof. vm_compute. reflexivity. Qed.

Lemma cfg0_inc : cfg_inc cfg0 <> 0. Proof. discriminate. Qed.

(* the histories of the no-panic theorem (C11), the sizing invariant and the view-entry invariant (C04) *)
Example started_is_inhabited : Started cfg0 st0 /\ Started cfg0 st1.
Proof.
  assert (H0 : Started cfg0 st0) by (eapply Started0; apply step0).
  split; [exact H0|]. eapply StartedS; [exact H0| |apply step1]. split; [cbn; lia|exact I].
Qed.
Example a_non_trivial_sized_state : Sz st1 /\ N st1 = 4 /\ MissingTransactions st1 = [tx_hash t7].
Proof. split; [apply (started_sized cfg0 cfg0_inc), started_is_inhabited|split; reflexivity]. Qed.

(* the reachable states of the gate theorems (C02 C04 C05 C07 C10 C15 C16) *)
Example reach_is_inhabited : Reach cfg0 st1.
Proof. eapply ReachS; [eapply ReachS; [apply Reach0|apply step0]|apply step1]. Qed.
(* gated callbacks do occur in these traces: the timer is armed in the first, so the C10 gate is exercised *)
Example a_gated_callback_occurs : exists s d, In (s, CTimerReset 1 0 d) tr0.
Proof. vm_compute. eexists. eexists. do 8 right. left. reflexivity. Qed.

(* the histories of the no-lost-wake-up theorem (C10): validator, not watch-only *)
Lemma val0 : Val tr0. Proof. unfold Val. vm_compute. repeat (apply Forall_cons; [first [exact I | reflexivity | discriminate]|]). apply Forall_nil. Qed.
Lemma val1 : Val tr1. Proof. unfold Val. vm_compute. repeat (apply Forall_cons; [first [exact I | reflexivity | discriminate]|]). apply Forall_nil. Qed.
Example run_is_inhabited : exists tm, Run cfg0 st1 tm /\ blockProcessed st1 = false.
Proof.
  eexists. split; [|reflexivity]. eapply RunS; [eapply Run0; [apply step0|apply val0]|apply step1|apply val1].
Qed.

(* the hypotheses of the C12 theorem hold of st1 with the requested transaction t7 *)
Example c12_hypotheses_are_satisfiable :
  IsBackup st1 = true /\
  match slot (ChangeViewPayloads st1) (MyIndex st1) with Some p => cv_newview p >? ViewNumber st1 | None => false end = false /\
  0 <= PrimaryIndex st1 /\ isSome (slot (PreparationPayloads st1) (PrimaryIndex st1)) = true /\
  slot (PreparationPayloads st1) (MyIndex st1) = None /\ slot (PreCommitPayloads st1) (MyIndex st1) = None /\ slot (CommitPayloads st1) (MyIndex st1) = None /\
  blockProcessed st1 = false /\ In (tx_hash t7) (MissingTransactions st1) /\
  hasAllTransactions (st1 <| Transactions := tx_put (Transactions st1) (tx_hash t7) t7 |>) = true.
Proof. vm_compute. repeat split; auto; discriminate. Qed.

(* the C13 hypothesis is satisfiable with a non-empty trace: the same start with the flag set *)
Definition sc0w : list call :=
  [CPrevHash []; CHeight 0; CValidators [10;11;12;13]; CTimePerBlock 1000; CKeyPair 2 12; CWatchOnly true; CStopTxFlow; CWatchOnly true].
Example watch_only_start_runs : exists st tr, step cfg0 fresh_state (EStart 0) sc0w = Ok (st, tr) /\ length tr = 8%nat.
Proof. vm_compute. eexists. eexists. split; reflexivity. Qed.

(* the hypothesis of the C02 theorems is met by a history in which a block is handed over (the recorded history of Witness/D1.v) *)
Example a_block_is_handed_over_in_some_history :
  exists cfg st ev sc st' tr s h e, Reach cfg st /\ step cfg st ev sc = Ok (st', tr) /\ In (s, CProcessBlock h e) tr.
Proof.
  destruct (refutes_sound d1_cfg d1 d1_refutes) as (st & ev & sc & st' & tr & s & HR & Hs & Hin & _).
  destruct (handed_over_in tr s Hin) as (h & e & Hi). exists d1_cfg, st, ev, sc, st', tr, s, h, e. auto.
Qed.

(* ... and one - a complete anti-MEV round recorded from the real library, Witness/S1.v - in which the node asks for a block
   signature (the hypothesis of the C03 whole-model theorem), hands over the pre-block and the block *)
Definition is_sign (c : call) : bool := match c with CSign _ => true | _ => false end.
Definition is_preblock (c : call) : bool := match c with CProcessPreBlock _ _ => true | _ => false end.
Definition is_block (c : call) : bool := match c with CProcessBlock _ _ => true | _ => false end.
Example a_signature_is_requested_in_some_history :
  exists cfg st ev sc st' tr s h, Reach cfg st /\ step cfg st ev sc = Ok (st', tr) /\ In (s, CSign h) tr.
Proof.
  destruct (has_call_sound s1_cfg s1 is_sign ltac:(vm_compute; reflexivity)) as (st & ev & sc & st' & tr & s & c & HR & Hs & Hin & Hc).
  destruct c; try discriminate Hc. exists s1_cfg, st, ev, sc, st', tr, s, bh. auto.
Qed.
Example a_preblock_is_handed_over_in_some_history :
  exists cfg st ev sc st' tr s h e, Reach cfg st /\ step cfg st ev sc = Ok (st', tr) /\ In (s, CProcessPreBlock h e) tr.
Proof.
  destruct (has_call_sound s1_cfg s1 is_preblock ltac:(vm_compute; reflexivity)) as (st & ev & sc & st' & tr & s & c & HR & Hs & Hin & Hc).
  destruct c; try discriminate Hc. eexists s1_cfg, st, ev, sc, st', tr, s, _, _. eauto.
Qed.

Definition is_setdata (c : call) : bool := match c with CSetData _ => true | _ => false end.
Example precommit_data_is_requested_in_some_history :
  exists cfg st ev sc st' tr s h, Reach cfg st /\ step cfg st ev sc = Ok (st', tr) /\ In (s, CSetData h) tr.
Proof.
  destruct (has_call_sound s1_cfg s1 is_setdata ltac:(vm_compute; reflexivity)) as (st & ev & sc & st' & tr & s & c & HR & Hs & Hin & Hc).
  destruct c; try discriminate Hc. exists s1_cfg, st, ev, sc, st', tr, s, bh. auto.
Qed.

(* the hypotheses of the one-signature theorem (C03) are met by an epoch in which the node does sign: the first eight calls of
   the recorded round S1 (Start, proposal, responses, pre-commits) *)
Example an_epoch_with_a_signature :
  exists st g, Epoch s1_cfg st g /\ KS 0 g /\ zlen (Validators st) <= 65536 /\ nsign g = 1%nat.
Proof. exact (epoch_okb_sound s1_cfg (firstn 8 s1) 0 ltac:(vm_compute; reflexivity)). Qed.

(* ... and the hypotheses of the commit-lock theorem by the same round with the call that follows the signature *)
Example a_call_after_the_signature :
  exists st g ev sc st' tr, Epoch s1_cfg st g /\ continues ev /\ step s1_cfg st ev sc = Ok (st', tr) /\ KS 0 (g ++ tr) /\
                            zlen (Validators st) <= 65536 /\ nsign g <> 0%nat.
Proof.
  destruct (lock_okb_sound s1_cfg (firstn 8 s1) (fst (nth 8 s1 (EReset 0, []))) (snd (nth 8 s1 (EReset 0, []))) 0 ltac:(vm_compute; reflexivity))
    as (st & g & st' & tr & H). eauto 10.
Qed.

(* the hypotheses of "every ChangeView precedes the signature": the recorded history V1 is an epoch in which the node broadcasts a
   ChangeView, follows the view change, and then signs (its first seven calls) *)
Example an_epoch_with_a_change_view_and_a_signature :
  exists st g g1 s p g2, Epoch v1_cfg st g /\ KS 0 g /\ zlen (Validators st) <= 65536 /\ nsign g = 1%nat /\
                         g = g1 ++ (s, CBroadcast p) :: g2 /\ p_type p = ChangeViewT.
Proof. exact (epoch_cv_okb_sound v1_cfg (firstn 7 v1) 0 ltac:(vm_compute; reflexivity)). Qed.
(* ... and the call that follows the signature in V1 (a timeout) does broadcast something - a recovery message *)
Example a_broadcast_after_the_signature :
  exists st g ev sc st' tr, Epoch v1_cfg st g /\ continues ev /\ step v1_cfg st ev sc = Ok (st', tr) /\ KS 0 (g ++ tr) /\
                            zlen (Validators st) <= 65536 /\ nsign g <> 0%nat.
Proof.
  destruct (lock_okb_sound v1_cfg (firstn 7 v1) (fst (nth 7 v1 (EReset 0, []))) (snd (nth 7 v1 (EReset 0, []))) 0 ltac:(vm_compute; reflexivity))
    as (st & g & st' & tr & H). eauto 10.
Qed.

(* the hypotheses of "every Commit broadcast from the signature on is the signed commit": in V1 the node broadcasts its Commit
   right after the signature request *)
Example a_commit_broadcast_after_the_signature_request :
  exists st g g1 s p g2, Epoch v1_cfg st g /\ KS 0 g /\ zlen (Validators st) <= 65536 /\
                         g = g1 ++ (s, CBroadcast p) :: g2 /\ p_type p = CommitT /\ nsign g1 <> 0%nat.
Proof.
  destruct (epoch_with_okb_sound v1_cfg (firstn 7 v1) 0 (cm_after_sign 0) ltac:(vm_compute; reflexivity)) as (st & g & HE & Hk & Hz & _ & Hf).
  destruct (cm_after_sign_sound g 0%nat Hf) as (g1 & s & p & g2 & E & Ty & Hn). exists st, g, g1, s, p, g2. auto 10.
Qed.

(* the hypotheses of the lock after the PreCommit: in the anti-MEV round S1 the node asks for pre-commit data in its fourth call
   (the response that completes M preparations); the fifth call follows it *)
Example a_call_after_the_precommit :
  exists st g ev sc st' tr, Epoch s1_cfg st g /\ continues ev /\ step s1_cfg st ev sc = Ok (st', tr) /\ KS 0 (g ++ tr) /\
                            zlen (Validators st) <= 65536 /\ nset g <> 0%nat.
Proof.
  destruct (lockp_okb_sound s1_cfg (firstn 4 s1) (fst (nth 4 s1 (EReset 0, []))) (snd (nth 4 s1 (EReset 0, []))) 0 ltac:(vm_compute; reflexivity))
    as (st & g & st' & tr & H). eauto 10.
Qed.

(* the shipped constants of the TLA+ models satisfy the translated ASSUME (the hypothesis of the C20 theorems) *)
Example shipped_constants_satisfy_the_ASSUME :
  Spec_dbft.d_ASSUME [3] 1 [] [0;1;2;3] = true /\ Spec_dbft.d_ASSUME [] 1 [3] [0;1;2;3] = true /\
  Spec_antiMEV.d_ASSUME [3] 1 [] [0;1;2;3] = true /\ Spec_antiMEV.d_ASSUME [] 1 [] [0;1;2;3] = true /\
  Spec_dbft.d_ASSUME [3] 1 [2] [0;1;2;3] = false.
Proof. vm_compute. repeat split; reflexivity. Qed.
