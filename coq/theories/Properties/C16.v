(* C16 Dynamic block time.  Proved here (node model, every reachable state, every script): the transaction-subscription
   callback is used only when the maximum-block-time extension is configured.  Proved as local theorems (every state meeting the conditions): no idle view change at a backup, prompt proposal
   on a notification at the primary.  The remaining timing clauses (spacing of proposals, empty blocks only after the
   maximum interval) are statements about synchronous multi-node runs; they are decided by the monitors on runs of the real code (sync mode c16) with the
   model tied to the code by the correspondence run (DESIGN.md C16). *)
From Coq Require Import ZArith List.
From DbftV Require Import Gates P16.
Open Scope Z_scope.

Theorem subscription_only_when_the_extension_is_configured cfg st ev sc st' tr s :
  Reach cfg st -> step cfg st ev sc = Ok (st', tr) -> In (s, CSubscribe) tr -> cfg_dyn cfg = true.
Proof. exact (subscribe_gate cfg st ev sc st' tr s). Qed.
Print Assumptions subscription_only_when_the_extension_is_configured.

(* no idle view change (every state that meets the conditions, every script under which the node is a non-watch-only
   validator and the pool is empty): an undecided backup at view 0 whose timer fires subscribes for transactions and re-arms
   the timer; it broadcasts nothing and stays in its view *)
Theorem idle_backup_waits_instead_of_asking_for_a_view_change cfg h v s0 :
  cfg_dyn cfg = true -> IsBackup s0 = true -> ViewNumber s0 = 0 -> blockProcessed s0 = false ->
  h = BlockIndex s0 -> v = ViewNumber s0 -> txSubscriptionOn s0 = false ->
  slot (CommitPayloads s0) (MyIndex s0) = None -> slot (PreCommitPayloads s0) (MyIndex s0) = None ->
  hx s0 (OnTimeout cfg h v) (fun _ s tr =>
    Val tr -> PoolEmpty tr ->
    ViewNumber s = ViewNumber s0 /\ txSubscriptionOn s = true /\ (forall s' p, ~ In (s', CBroadcast p) tr) /\ HasReset tr /\ In CSubscribe (map snd tr)).
Proof. exact (idle_backup_waits_instead_of_changing_view cfg h v s0). Qed.
Print Assumptions idle_backup_waits_instead_of_asking_for_a_view_change.

(* a new-transaction notification during the extended wait makes the primary propose in that very call *)
Theorem notification_during_the_wait_produces_a_proposal cfg s0 :
  txSubscriptionOn s0 = true -> IsPrimary s0 = true -> 0 <= MyIndex s0 -> 0 <= PrimaryIndex s0 -> blockProcessed s0 = false ->
  slot (PreparationPayloads s0) (PrimaryIndex s0) = None ->
  hx s0 (OnNewTransaction cfg) (fun _ _ tr => Val tr -> TagsCurrent tr -> exists s p, In (s, CBroadcast p) tr /\ p_type p = PrepareRequestT).
Proof. exact (notification_makes_the_waiting_primary_propose cfg s0). Qed.
Print Assumptions notification_during_the_wait_produces_a_proposal.
