(* C16 Dynamic block time.  Proved here (node model, every reachable state, every script): the transaction-subscription
   callback is used only when the maximum-block-time extension is configured.  The timing clauses (spacing of proposals,
   empty blocks only after the maximum interval, prompt proposal on a notification, no idle view change) are statements
   about synchronous multi-node runs; they are decided by the monitors on runs of the real code (sync mode c16) with the
   model tied to the code by the correspondence run (DESIGN.md C16). *)
From Coq Require Import ZArith List.
From DbftV Require Import Gates.
Open Scope Z_scope.

Theorem subscription_only_when_the_extension_is_configured cfg st ev sc st' tr s :
  Reach cfg st -> step cfg st ev sc = Ok (st', tr) -> In (s, CSubscribe) tr -> cfg_dyn cfg = true.
Proof. exact (subscribe_gate cfg st ev sc st' tr s). Qed.
Print Assumptions subscription_only_when_the_extension_is_configured.
