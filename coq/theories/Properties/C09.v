(* C09 Recovery liveness.  A liveness statement about multi-node runs with silent nodes, healed partitions and restarts: it
   is decided on runs of the real library (sync modes c09s / c09p / c09r / c09x) with progress monitors, the model tied to
   the code by the correspondence run; known finding D18.  What is proved here is the node-level fact that recovery rests on:
   a node that has committed answers every RecoveryRequest with a recovery message carrying its own Commit and every
   preparation it holds (every state, every script under which it is a non-watch-only validator). *)
From Coq Require Import ZArith List.
From DbftV Require Import P09.
Open Scope Z_scope.

Theorem committed_node_answers_recovery_requests cfg msg s0 cm :
  0 <= MyIndex s0 -> slot (CommitPayloads s0) (MyIndex s0) = Some cm ->
  hx s0 (onRecoveryRequest cfg msg) (fun _ s tr =>
    Val tr -> s = s0 /\
    exists sb p, In (sb, CBroadcast p) tr /\ p_type p = RecoveryMessageT /\
      (forall q, In q (to_p0 cm) -> carries p q) /\
      (forall x q, In x (somes (PreparationPayloads s0)) -> In q (to_p0 x) -> carries p q)).
Proof. exact (P09.committed_node_answers_recovery_requests cfg msg s0 cm). Qed.
Print Assumptions committed_node_answers_recovery_requests.
