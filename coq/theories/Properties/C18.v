(* C18 Bundled timer: never early, reports the latest epoch, drops stale expiries.
   Model: Timer/TimerModel.v (timer/timer.go over an abstract runtime: a clock, runtime timers that deliver once their
   deadline has passed unless stopped or replaced, one-slot channels). Theorems hold for EVERY operation sequence. *)
From Coq Require Import ZArith List.
From DbftV Require Import TimerModel.
Open Scope Z_scope.

(* an expiry read from C() after any sequence of Reset / Extend / clock advance / read operations is not earlier than the
   latest reset instant + its duration + all extensions since, and carries the height and view of the latest reset *)
Theorem never_early_and_latest_epoch ops hv t' :
  ReadC (run init ops) = (Some hv, t') ->
  let t := run init ops in s t + d t <= now t /\ hv = (height t, view t).
Proof. exact (never_early ops hv t'). Qed.
Print Assumptions never_early_and_latest_epoch.

(* with non-negative extensions, the expiry of the latest reset, if not yet read, is deliverable as soon as the deadline
   has passed (a zero duration is deliverable at once) *)
Theorem expiry_available_at_deadline ops :
  Forall wf_op ops -> let t := run init ops in
  fresh t = true -> s t + d t <= now t -> exists hv t', ReadC t = (Some hv, t').
Proof. exact (expiry_available ops). Qed.
Print Assumptions expiry_available_at_deadline.

(* an expiry armed by an earlier reset is never delivered after a later one: after Reset nothing is deliverable before
   the new deadline (for a positive duration), whatever was pending *)
Theorem no_stale_expiry_after_reset ops h v dur :
  0 < dur -> fst (ReadC (Reset (run init ops) h v dur)) = None.
Proof. exact (no_stale_after_reset ops h v dur). Qed.
Print Assumptions no_stale_expiry_after_reset.

Theorem zero_duration_fires_immediately ops h v :
  fst (ReadC (Reset (run init ops) h v 0)) = Some (h, v).
Proof. exact (zero_fires ops h v). Qed.
Print Assumptions zero_duration_fires_immediately.
