(* C10 No lost wake-up (node model, every history, every script).
   The timer is a ghost of the history: [timer_after] - armed by the last TimerReset of an API call; otherwise as before,
   except that delivering the expiry it was armed for consumes it.  [Run cfg st tm]: st and tm are reached by Start on a
   fresh instance followed by ANY API calls with ANY callback answers, as long as the answers make the node a validator
   that is not watch-only whenever it is asked ([Val]: every WatchOnly answer false, every key-pair index a position).
   Proved: (1) whenever control returns from a call and the node has not accepted a block for its height, the timer is armed
   for exactly its height and view; (2) a timeout delivered for that height and view re-arms it; (3) every arming names the
   node's height and view at that instant.
   NOT proved, and false of the code: "with a non-negative duration" - the back-off shift overflows int64 at high views
   (known finding D10, replayed on the real code by corpus scenario D10). *)
From Coq Require Import ZArith List.
From DbftV Require Import Gates P10.
Open Scope Z_scope.

Theorem undecided_validator_always_has_a_timer_for_its_epoch cfg st tm :
  Run cfg st tm -> blockProcessed st = false -> tm = Some (BlockIndex st, ViewNumber st).
Proof. exact (fun HR => proj2 (proj2 (run_inv cfg st tm HR))). Qed.
Print Assumptions undecided_validator_always_has_a_timer_for_its_epoch.

Theorem timeout_for_the_current_epoch_rearms_the_timer cfg h v s0 :
  blockProcessed s0 = false -> 0 <= MyIndex s0 -> h = BlockIndex s0 -> v = ViewNumber s0 ->
  hx s0 (OnTimeout cfg h v) (fun _ _ tr => Val tr -> exists s h' v' d, In (s, CTimerReset h' v' d) tr).
Proof. exact (timeout_rearms cfg h v false s0). Qed.
Print Assumptions timeout_for_the_current_epoch_rearms_the_timer.

Theorem timer_is_armed_for_the_current_epoch cfg st ev sc st' tr s h v d :
  Reach cfg st -> step cfg st ev sc = Ok (st', tr) -> In (s, CTimerReset h v d) tr -> h = BlockIndex s /\ v = ViewNumber s.
Proof. exact (timer_gate cfg st ev sc st' tr s h v d). Qed.
Print Assumptions timer_is_armed_for_the_current_epoch.
