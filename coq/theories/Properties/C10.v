(* C10 No lost wake-up. Proved here for every reachable state and every script: whenever the library arms the timer it
   arms it for exactly the node's height and view at that instant (the clause the seeded change C10 breaks).
   The "always armed / non-negative" clauses are decided by the monitor on the real code and the correspondence run;
   the negative duration at high views is known finding D10 (DESIGN.md C10). *)
From Coq Require Import ZArith List.
From DbftV Require Import Gates.
Open Scope Z_scope.

Theorem timer_is_armed_for_the_current_epoch cfg st ev sc st' tr s h v d :
  Reach cfg st -> step cfg st ev sc = Ok (st', tr) -> In (s, CTimerReset h v d) tr -> h = BlockIndex s /\ v = ViewNumber s.
Proof. exact (timer_gate cfg st ev sc st' tr s h v d). Qed.
Print Assumptions timer_is_armed_for_the_current_epoch.
