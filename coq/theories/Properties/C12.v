(* C12 A backup that is given every requested transaction answers the proposal (node model).
   For EVERY state in which: the node is a backup; it holds the proposal of its current view (primary's slot filled); it has
   not itself asked to leave the view; it has not responded, pre-committed or committed; the height is undecided; the
   transaction is one it asked for; and with it the proposal's transaction set is complete -
   the OnTransaction call that supplies it broadcasts a PrepareResponse, or a ChangeView when the completed block fails
   verification, for every script under which the node is a validator that is not watch-only.
   The second sentence of the property (a view change inside the same call, fix D3) and the tie to the code are decided
   by the monitor on the real library (corpus scenarios D3, 1012; generated histories) and the correspondence run. *)
From Coq Require Import ZArith List.
From DbftV Require Import P12.
Open Scope Z_scope.

Theorem last_requested_transaction_is_answered cfg t s0 :
  IsBackup s0 = true ->
  match slot (ChangeViewPayloads s0) (MyIndex s0) with Some p => cv_newview p >? ViewNumber s0 | None => false end = false ->
  0 <= PrimaryIndex s0 -> isSome (slot (PreparationPayloads s0) (PrimaryIndex s0)) = true ->
  slot (PreparationPayloads s0) (MyIndex s0) = None -> slot (PreCommitPayloads s0) (MyIndex s0) = None -> slot (CommitPayloads s0) (MyIndex s0) = None ->
  blockProcessed s0 = false -> In (tx_hash t) (MissingTransactions s0) ->
  hasAllTransactions (s0 <| Transactions := tx_put (Transactions s0) (tx_hash t) t |>) = true ->
  hx s0 (OnTransaction cfg t)
     (fun _ _ tr => Val tr -> exists s p, In (s, CBroadcast p) tr /\ (p_type p = PrepareResponseT \/ p_type p = ChangeViewT)).
Proof. exact (P12.last_requested_transaction_is_answered cfg t s0). Qed.
Print Assumptions last_requested_transaction_is_answered.
