(* C20 The shipped TLA+ models keep their stated invariants.
   The models are REGENERATED from /repo's .tla files on every run (tla2coq); the theorems below are about the
   generated definitions d_Init / d_Next / d_Inv* of each spec. *)
From Coq Require Import List ZArith String.
From DbftV Require Import TlaPrelude.
From DbftV Require Spec_dbft Spec_antiMEV Spec_CV3 Proofs_dbft Proofs_antiMEV Witness_CV3.
Import ListNotations.
Open Scope Z_scope.

(* The constants of a model are constrained by its ASSUME, which is translated with the rest of the module (d_ASSUME); sets are
   duplicate-free lists.  For EVERY such RM (any N), RMFault, RMDead and MaxView - views themselves are unbounded in the theorems,
   the MaxView constraint only prunes TLC: *)

(* formal-models/dbft/dbft.tla: no two nodes accept blocks in different views *)
Theorem dbft_InvTwoBlocksAccepted (RM RMFault RMDead : list Z) (MaxView : Z) :
  NoDup RM -> NoDup RMFault -> Spec_dbft.d_ASSUME RMFault MaxView RMDead RM = true ->
  forall s, Proofs_dbft.Reach RM RMFault RMDead s -> Spec_dbft.d_InvTwoBlocksAccepted RM s = true.
Proof. exact (Proofs_dbft.InvTwoBlocksAccepted_holds RM RMFault RMDead MaxView). Qed.
Print Assumptions dbft_InvTwoBlocksAccepted.

(* formal-models/dbft_antiMEV/dbft.tla: the same statement for the anti-MEV model *)
Theorem antiMEV_InvTwoBlocksAccepted (RM RMFault RMDead : list Z) (MaxView : Z) :
  NoDup RM -> NoDup RMFault -> Spec_antiMEV.d_ASSUME RMFault MaxView RMDead RM = true ->
  forall s, Proofs_antiMEV.Reach RM RMFault RMDead s -> Spec_antiMEV.d_InvTwoBlocksAccepted RM s = true.
Proof. exact (Proofs_antiMEV.InvTwoBlocksAccepted_holds RM RMFault RMDead MaxView). Qed.
Print Assumptions antiMEV_InvTwoBlocksAccepted.

(* type correctness of both models in every reachable state, for EVERY RM, RMFault, RMDead (no size bound, no view bound) *)
Theorem dbft_TypeOK (RM RMFault RMDead : list Z) :
  forall s, Proofs_dbft.Reach RM RMFault RMDead s -> Spec_dbft.d_TypeOK RM s = true.
Proof. exact (Proofs_dbft.TypeOK_holds RM RMFault RMDead). Qed.
Print Assumptions dbft_TypeOK.
Theorem antiMEV_TypeOK (RM RMFault RMDead : list Z) :
  forall s, Proofs_antiMEV.Reach RM RMFault RMDead s -> Spec_antiMEV.d_TypeOK RM s = true.
Proof. exact (Proofs_antiMEV.TypeOK_holds RM RMFault RMDead). Qed.
Print Assumptions antiMEV_TypeOK.

(* at most F faulty or dead nodes: by the ASSUME's Cardinality(RMFault \cup RMDead) <= F *)
Theorem dbft_InvFaultNodesCount (RM RMFault RMDead : list Z) (MaxView : Z) :
  NoDup RM -> Spec_dbft.d_ASSUME RMFault MaxView RMDead RM = true ->
  forall s, Proofs_dbft.Reach RM RMFault RMDead s -> Spec_dbft.d_InvFaultNodesCount RM s = true.
Proof. exact (Proofs_dbft.InvFaultNodesCount_holds RM RMFault RMDead MaxView). Qed.
Print Assumptions dbft_InvFaultNodesCount.
Theorem antiMEV_InvFaultNodesCount (RM RMFault RMDead : list Z) (MaxView : Z) :
  NoDup RM -> Spec_antiMEV.d_ASSUME RMFault MaxView RMDead RM = true ->
  forall s, Proofs_antiMEV.Reach RM RMFault RMDead s -> Spec_antiMEV.d_InvFaultNodesCount RM s = true.
Proof. exact (Proofs_antiMEV.InvFaultNodesCount_holds RM RMFault RMDead MaxView). Qed.
Print Assumptions antiMEV_InvFaultNodesCount.

(* formal-models/dbft2.1_threeStagedCV/dbftCV3.tla violates InvTwoBlocksAccepted with the permitted fault set
   RMFault = {3} (known finding D13): the stored TLC behaviour is a behaviour of the generated model (d_Init on its
   first state, d_Next on every step) and its last state falsifies the generated invariant. *)
Theorem dbftCV3_InvTwoBlocksAccepted_refuted : Witness_CV3.witness_ok = true.
Proof. exact Witness_CV3.two_blocks_cv3_refuted_witness. Qed.
Print Assumptions dbftCV3_InvTwoBlocksAccepted_refuted.
