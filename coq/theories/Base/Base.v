(* Node model: base definitions (results, integers with Go widths, checked tables). *)
From Coq Require Export List ZArith Bool Lia.
Export ListNotations.
Open Scope Z_scope.

Inductive res (A : Type) :=
| Ok (a : A)
| Mismatch (pos : nat)      (* the script's next element is not the callback the model makes *)
| Panic                     (* Go run-time panic: index out of range, nil map / nil interface use *)
| Fatal                     (* zap Fatal reached *)
| OutOfFuel.
Arguments Ok {A}. Arguments Mismatch {A}. Arguments Panic {A}. Arguments Fatal {A}. Arguments OutOfFuel {A}.

(* ---- Go integer widths ---- *)
Definition u8 (x : Z) := x mod 256.
Definition u32 (x : Z) := x mod 4294967296.
Definition u64 (x : Z) := x mod 18446744073709551616.
Definition two63 := 9223372036854775808.
Definition wrap64 (x : Z) := (x + two63) mod 18446744073709551616 - two63.      (* int64 two's complement *)
Definition sat64 (x : Z) := Z.max (- (two63 - 1) - 1) (Z.min (two63 - 1) x).      (* time.Time.Sub saturates *)
Definition shl64 (x n : Z) := if n >=? 64 then 0 else wrap64 (x * 2 ^ n).         (* Duration << byte-count *)
Definition gorem (a b : Z) := Z.rem a b.                                          (* Go's % truncates *)
Definition goquot (a b : Z) := Z.quot a b.

(* ---- checked tables ---- *)
Fixpoint nth_chk {A} (l : list A) (i : nat) : option A :=
  match l, i with x :: _, O => Some x | _ :: t, S j => nth_chk t j | [], _ => None end.
Fixpoint set_chk {A} (l : list A) (i : nat) (x : A) : option (list A) :=
  match l, i with
  | _ :: t, O => Some (x :: t)
  | y :: t, S j => match set_chk t j x with Some t' => Some (y :: t') | None => None end
  | [], _ => None end.
Definition zlen {A} (l : list A) : Z := Z.of_nat (length l).
Definition replicate {A} (n : Z) (x : A) : list A := repeat x (Z.to_nat n).

Fixpoint list_eqb {A} (eqb : A -> A -> bool) (a b : list A) : bool :=
  match a, b with [], [] => true | x :: a', y :: b' => eqb x y && list_eqb eqb a' b' | _, _ => false end.
Definition option_eqb {A} (eqb : A -> A -> bool) (a b : option A) : bool :=
  match a, b with None, None => true | Some x, Some y => eqb x y | _, _ => false end.
Definition count {A} (p : A -> bool) (l : list A) : Z := zlen (filter p l).
