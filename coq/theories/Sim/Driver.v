(* C17: the event loop of the bundled simulation (internal/simulation/main.go, simNode.Run) over an abstract library.
   The loop shape (which API call each select case makes, after which events the re-initialisation check runs, whether
   ProcessBlock advances the ledger) is NOT hand-copied: Sim/gen/DriverShape.v is regenerated from main.go on every run.
   Library contract used (proved on the node model, C05): an API call hands over at most one block for the current
   height and only while none was handed over since the last Start/Reset; Reset moves to ledger height + 1. *)
From Coq Require Import List Arith Lia Bool.
Import ListNotations.

Record shape := { sh_after_timer : bool; sh_after_message : bool; sh_ledger : bool }.
Record sim := { ledger : nat; blockIndex : nat; decided : bool }.
Inductive ev := Timer | Message.

(* one library call; [dec] says whether the delivered event completes the block (an arbitrary oracle) *)
Definition lib_call (sh : shape) (s : sim) (dec : bool) : sim :=
  if dec && negb (decided s)
  then {| ledger := if sh_ledger sh then blockIndex s else ledger s; blockIndex := blockIndex s; decided := true |}
  else s.
Definition reset (s : sim) : sim := {| ledger := ledger s; blockIndex := S (ledger s); decided := false |}.
Definition check (on : bool) (s : sim) : sim := if on && (ledger s =? blockIndex s) then reset s else s.
Definition step (sh : shape) (s : sim) (e : ev * bool) : sim :=
  let s1 := lib_call sh s (snd e) in
  match fst e with Timer => check (sh_after_timer sh) s1 | Message => check (sh_after_message sh) s1 end.
(* Run: Start on a ledger at height h0, then the loop *)
Definition start (sh : shape) (h0 : nat) (dec : bool) : sim := lib_call sh {| ledger := h0; blockIndex := S h0; decided := false |} dec.
Definition run (sh : shape) (h0 : nat) (dec0 : bool) (es : list (ev * bool)) : sim := fold_left (step sh) es (start sh h0 dec0).

Definition good (sh : shape) := sh_after_timer sh = true /\ sh_after_message sh = true /\ sh_ledger sh = true.

(* number of events that complete a block while the library is able to decide *)
Fixpoint decisions (sh : shape) (s : sim) (es : list (ev * bool)) : nat :=
  match es with
  | [] => 0
  | e :: r => (if snd e && negb (decided s) then 1 else 0) + decisions sh (step sh s e) r
  end.

Ltac crush :=
  repeat match goal with
         | |- context[Nat.eqb ?a ?b] => destruct (Nat.eqb_spec a b)
         | H : context[Nat.eqb ?a ?b] |- _ => destruct (Nat.eqb_spec a b)
         end; cbn in *; try lia; try discriminate; auto.

(* working state: not decided and one height above the ledger *)
Definition working (s : sim) := decided s = false /\ S (ledger s) = blockIndex s.

Lemma step_good sh s e : good sh -> working s ->
  working (step sh s e) /\ ledger (step sh s e) = ledger s + (if snd e then 1 else 0).
Proof.
  intros (Ht & Hm & Hl) (Hd & Hb). destruct sh as [a b c]. cbn in Ht, Hm, Hl. subst a b c.
  destruct s as [l bi d]. cbn in Hd, Hb. subst d. destruct e as [k dec].
  unfold working, step, lib_call, check. destruct dec, k; cbn; crush; split; crush.
Qed.

Lemma decisions_working sh s e r : working s -> decisions sh s (e :: r) = (if snd e then 1 else 0) + decisions sh (step sh s e) r.
Proof. intros (Hd & _). cbn [decisions]. rewrite Hd. cbn [negb]. rewrite andb_true_r. reflexivity. Qed.

(* with the shipped shape every block the library completes inside the loop advances the ledger by one, and the node is
   always left working on the next height: the chain is extended exactly as often as the library decides *)
Theorem driver_extends_chain sh h0 es : good sh ->
  let s0 := {| ledger := h0; blockIndex := S h0; decided := false |} in
  ledger (fold_left (step sh) es s0) = h0 + decisions sh s0 es /\ decided (fold_left (step sh) es s0) = false.
Proof.
  intros Hg s0.
  assert (G : forall es s, working s ->
              ledger (fold_left (step sh) es s) = ledger s + decisions sh s es /\ working (fold_left (step sh) es s)).
  { induction es0 as [|e r IH]; intros s Hw.
    - cbn. split; [lia|auto].
    - cbn [fold_left]. destruct (step_good sh s e Hg Hw) as [Hw' Hl].
      destruct (IH _ Hw') as [L W]. split; auto. rewrite L, Hl, (decisions_working sh s e r Hw). lia. }
  destruct (G es s0) as [L W]; [split; reflexivity|]. split; [exact L|apply W].
Qed.

(* a loop whose re-initialisation check does not follow timer events stops at the first block completed by a timer
   event: whatever happens afterwards, the ledger stays one block above the start (this is what the unrepaired example did
   for every event kind, and what the seeded variant does for a single validator) *)
Theorem stalls_without_check_after_timer sh h0 es : sh_after_timer sh = false -> sh_ledger sh = true ->
  Forall (fun e => fst e = Timer) es ->
  ledger (fold_left (step sh) es (step sh {| ledger := h0; blockIndex := S h0; decided := false |} (Timer, true))) = S h0.
Proof.
  intros Ht Hl Hall. destruct sh as [a b c]. cbn in Ht, Hl. subst a c.
  set (s1 := {| ledger := S h0; blockIndex := S h0; decided := true |}).
  assert (E1 : step {| sh_after_timer := false; sh_after_message := b; sh_ledger := true |} {| ledger := h0; blockIndex := S h0; decided := false |} (Timer, true) = s1) by reflexivity.
  rewrite E1. clear E1.
  assert (G : forall es, Forall (fun e => fst e = Timer) es -> fold_left (step {| sh_after_timer := false; sh_after_message := b; sh_ledger := true |}) es s1 = s1).
  { induction es0 as [|e r IH]; intros Ha; cbn [fold_left]; auto. inversion Ha as [|? ? He Hr]; subst.
    assert (E : step {| sh_after_timer := false; sh_after_message := b; sh_ledger := true |} s1 e = s1).
    { destruct e as [k dec]. cbn in He. subst k. unfold step, lib_call, check. cbn. rewrite andb_false_r. reflexivity. }
    rewrite E. apply IH; auto. }
  rewrite (G es Hall). reflexivity.
Qed.
