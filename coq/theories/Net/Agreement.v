(* C01: the composition argument.  Network-level agreement follows, for every validator count and every behaviour of at
   most F keys, from two node-level facts, which enter as hypotheses of the theorem (section variables, no axioms):
   Certificate (what C02 delivers together with signature authenticity) and OneSign (what C03 delivers). *)
From Coq Require Import List Arith Lia ZArith.
Import ListNotations.

Section Pigeon.
Definition mem (l : list nat) (x : nat) : bool := if in_dec Nat.eq_dec x l then true else false.
Lemma NoDup_app_disj (a b : list nat) : NoDup a -> NoDup b -> (forall x, In x a -> ~ In x b) -> NoDup (a ++ b).
Proof. induction a as [|x a IH]; cbn; auto. intros Na Nb Hd. inversion Na; subst. constructor.
  - rewrite in_app_iff. intros [H|H]; auto. apply (Hd x); auto. - apply IH; auto. Qed.
Lemma inter_length (l1 l2 U : list nat) : NoDup l1 -> NoDup l2 -> incl l1 U -> incl l2 U ->
  length l1 + length l2 <= length U + length (filter (mem l2) l1).
Proof.
  intros N1 N2 I1 I2.
  assert (Hlen : length l1 = length (filter (mem l2) l1) + length (filter (fun x => negb (mem l2 x)) l1)).
  { clear. induction l1 as [|a l IH]; cbn; auto. destruct (mem l2 a); cbn; lia. }
  assert (Hd : NoDup (filter (fun x => negb (mem l2 x)) l1 ++ l2)).
  { apply NoDup_app_disj; auto. - apply NoDup_filter; auto.
    - intros x Hx Hx2. apply filter_In in Hx. destruct Hx as [_ Hx]. unfold mem in Hx.
      destruct (in_dec Nat.eq_dec x l2); [discriminate|contradiction]. }
  assert (Hi : incl (filter (fun x => negb (mem l2 x)) l1 ++ l2) U).
  { intros x Hx. apply in_app_iff in Hx. destruct Hx as [Hx|Hx]; auto. apply filter_In in Hx. apply I1, Hx. }
  pose proof (NoDup_incl_length Hd Hi) as Hl. rewrite app_length in Hl. lia.
Qed.
End Pigeon.

Section Agreement.
Variable node : Type.
Variable bhash : Type.
Variable V : nat -> list nat.                 (* validator keys at a height (AppContract: same on all honest nodes) *)
Variable honest_key : nat -> Prop.            (* key owned by a node that follows the library and never forgets state *)
Variable byz : nat -> list nat.               (* the other keys of V h *)
Variable accepts : node -> nat -> bhash -> Prop.   (* an honest node handed this block hash to the application at height h *)
Variable signed : nat -> nat -> bhash -> Prop.      (* the owner of key k executed Block.Sign on this hash while at height h *)

Definition Nv h := length (V h).
Definition F h := (Nv h - 1) / 3.
Definition M h := Nv h - F h.

Hypothesis V_nodup : forall h, NoDup (V h).
Hypothesis ByzBound : forall h, NoDup (byz h) /\ length (byz h) <= F h /\ forall k, In k (V h) -> ~ honest_key k -> In k (byz h).
Hypothesis V_nonempty : forall h, 1 <= Nv h.    (* WF: GetValidators never returns an empty list *)
Hypothesis honest_dec : forall k, honest_key k \/ ~ honest_key k.

(* C02 accept_certificate + all_counted_verified (i.e. under NoUncheckedCounted) + Authentic:
   a verified commit signature under an honest key was produced by that key's owner. *)
Hypothesis Certificate : forall n h b, accepts n h b ->
  exists S, NoDup S /\ incl S (V h) /\ M h <= length S /\ forall k, In k S -> honest_key k -> signed k h b.
(* C03 one_commit_per_height + header_fixed_while_committed, with HeightsIncrease *)
Hypothesis OneSign : forall k h b b', honest_key k -> signed k h b -> signed k h b' -> b = b'.

Lemma quorum_arith h : 1 <= Nv h -> F h + 1 + Nv h <= M h + M h.
Proof. unfold M, F. intros HN. pose proof (Nat.div_mod (Nv h - 1) 3 ltac:(lia)).
  pose proof (Nat.mod_upper_bound (Nv h - 1) 3 ltac:(lia)). lia. Qed.

Theorem agreement n n' h b b' : accepts n h b -> accepts n' h b' -> b = b'.
Proof.
  intros A A'. destruct (Certificate _ _ _ A) as (S & NS & IS & LS & HS).
  destruct (Certificate _ _ _ A') as (S' & NS' & IS' & LS' & HS').
  destruct (ByzBound h) as (NB & LB & HB).
  pose proof (V_nonempty h) as HN.
  pose proof (inter_length S S' (V h) NS NS' IS IS') as Hi. fold (Nv h) in Hi.
  pose proof (quorum_arith h HN) as Hq.
  set (c := filter (mem S') S) in *.
  assert (Hc : exists k, In k c /\ honest_key k).
  { destruct (existsb (fun x => negb (mem (byz h) x)) c) eqn:Ex.
    - apply existsb_exists in Ex. destruct Ex as (x & Hx & Hnb). exists x. split; auto.
      unfold mem in Hnb. destruct (in_dec Nat.eq_dec x (byz h)); [discriminate|].
      destruct (honest_dec x) as [Hh|Hh]; auto. exfalso. apply n0. apply HB; auto.
      apply filter_In in Hx. apply IS, Hx.
    - exfalso. assert (Hinc : incl c (byz h)).
      { intros x Hx. destruct (in_dec Nat.eq_dec x (byz h)) as [H|H]; auto.
        assert (existsb (fun x => negb (mem (byz h) x)) c = true).
        { apply existsb_exists. exists x; split; auto. unfold mem. destruct (in_dec Nat.eq_dec x (byz h)); [contradiction|reflexivity]. }
        congruence. }
      assert (Nc : NoDup c) by (apply NoDup_filter; auto).
      pose proof (NoDup_incl_length Nc Hinc). lia. }
  destruct Hc as (k & Hk & Hh). apply filter_In in Hk. destruct Hk as [Hk1 Hk2].
  unfold mem in Hk2. destruct (in_dec Nat.eq_dec k S'); [|discriminate].
  eapply OneSign; eauto.
Qed.
End Agreement.
