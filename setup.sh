#!/bin/bash
# Run once after a fresh restore, offline: builds the Coq development (full .vo build), the extracted replay driver,
# the Go harness against /repo, and the generated TLA+ models. Everything is rebuilt from files on disk.
set -e
cd "$(dirname "$0")"
export GOFLAGS=-mod=mod GOPROXY=off GOSUMDB=off GOTOOLCHAIN=local
mkdir -p .work evidence
timeout 1200 tla2coq/gen.sh
mkdir -p coq/theories/Sim/gen && python3 tools/simshape.py /repo/internal/simulation/main.go > coq/theories/Sim/gen/DriverShape.v
(cd coq && coq_makefile -f _CoqProject -o Makefile > /dev/null && timeout 3000 make -j16 2>&1 | grep -v '^COQ\|^Closed under' | tail -20; test ${PIPESTATUS[0]} -eq 0)
python3 - <<'PY'
import sys
sys.path.insert(0, "lib")
from common import *
h = build_harness(); assert h["ok"], h["log"]
d = build_driver(); assert d["ok"], d["log"]
print("setup ok: harness", h["bin"], "driver", d["bin"])
PY
