"""Deciders for the properties with their own small models: C06 quorum, C17 simulation, C18 timer, C19 reference code,
C20 TLA+ specs."""
import json
import os
import re
import time

from common import *  # noqa
import props  # noqa


def _fail_build(pid, ev, what, log):
    path = write_replay(pid, "build", {"property": pid, "kind": "no-failing-input-found", "no_longer_checks": what, "log": log[-3000:]})
    ev["coverage"].update({"evaluations": 0, "distinct_nontrivial": 0, "explanation": what})
    return props.finish(pid, ev, ["VIOLATION property=%s replay=%s no-failing-input-found" % (pid, path)], True, {}, [])


# ------------------------------------------------------------------------------------------------------- C06
def decide_quorum(pid, tier, sd):
    ps = props.proof_status(pid)
    ev = props.base_evidence(pid, tier, sd, ps)
    h = build_harness()
    if not h["ok"]:
        return _fail_build(pid, ev, "harness does not build against /repo", h["log"])
    d = build_driver()
    if not d["ok"]:
        return _fail_build(pid, ev, "extracted driver does not build", d["log"])
    key = "quorum-%s-%d-%s-%s" % (tier, sd, repo_hash(), verif_hash())

    def go():
        out = os.path.join(WORK, "quorum-%s.txt" % key)
        with open(out, "w") as f:
            hp = subprocess.run([h["bin"], "quorum", str(sd), tier], stdout=f, stderr=subprocess.PIPE, text=True, timeout=1500)
        dr = sh([d["bin"], "--quorum", out], check=False)
        # independent monitor: the property's own arithmetic evaluated on what the library printed
        hits, contexts, values, samples, distinct, wrap = [], 0, 0, [], set(), {}
        with open(out) as f:
            for line in f:
                t = line.split()
                if not t or t[0] != "Q":
                    continue
                contexts += 1
                N, hgt, F, M, pidx = (int(x) for x in t[1:6])
                ps_ = [int(x) for x in t[6:]]
                values += 3 + len(ps_)
                distinct.add((N, hgt))
                if len(samples) < 3:
                    samples.append("N=%d BlockIndex=%d -> F=%d M=%d primary(views 0..5)=%s" % (N, hgt, F, M, ps_[:6]))
                if F != (N - 1) // 3 or M != N - F or not (2 * M - N >= F + 1):
                    hits.append({"sig": "quorum-arithmetic", "desc": "N=%d: F=%d M=%d" % (N, F, M)})
                for v, p in enumerate(ps_):
                    if p != (hgt - v) % N or not (0 <= p < N):
                        hits.append({"sig": "primary-not-h-minus-v-mod-n", "desc": "N=%d BlockIndex=%d view=%d: primary %d, expected %d" % (N, hgt, v, p, (hgt - v) % N)})
                        break
                if pidx != ps_[0]:
                    hits.append({"sig": "primary-index-field", "desc": "N=%d BlockIndex=%d: PrimaryIndex %d but GetPrimaryIndex(0)=%d" % (N, hgt, pidx, ps_[0])})
                if hgt in (0, 2 ** 32 - 1) and N > 1:
                    wrap.setdefault(N, {})[hgt] = ps_[0]
                    if len(wrap[N]) == 2 and wrap[N][0] == wrap[N][2 ** 32 - 1]:
                        hits.append({"sig": "rotation-across-uint32-wrap", "desc": "N=%d: block indices 2^32-1 and 0 (consecutive across the uint32 wrap) have the same primary %d" % (N, ps_[0])})
                w = min(N, 256)
                if len(set(ps_[:w])) != w:
                    hits.append({"sig": "rotation-not-exactly-once", "desc": "N=%d BlockIndex=%d: %d distinct primaries over %d consecutive views" % (N, hgt, len(set(ps_[:w])), w)})
        os.remove(out)
        m = re.search(r"QSUMMARY contexts (\d+) values (\d+) disagreements (\d+)", dr.stdout)
        return {"harness_rc": hp.returncode, "driver_rc": dr.returncode, "qdiff": [l for l in dr.stdout.split("\n") if l.startswith("QDIFF")][:20],
                "summary": [int(x) for x in m.groups()] if m else None, "hits": hits[:50], "contexts": contexts, "values": values,
                "samples": samples, "distinct": len(distinct)}
    r = cached(key, go)
    cov = ev["coverage"]
    cov.update({"evaluations": r["values"], "distinct_nontrivial": r["distinct"],
                "rule": "one evaluation = one value (F, M, PrimaryIndex or GetPrimaryIndex(view)) read from a real Context built through Start/Reset with N validators at a chosen ledger height and compared with the extracted Coq function; distinct = distinct (N, BlockIndex) pairs; N in 1..256 (thorough 1..4096) plus seeded N up to 65535, heights around 0, N, 2^31 and 2^32-1",
                "samples": r["samples"], "disagreements_checked": len(r["qdiff"]), "cache_reused": r.get("_cache_reused", False),
                "explanation": "theorems for every N >= 1 (unbounded) in Quorum.v; the Go expressions are tied to the Coq ones by evaluating both on the same contexts"})
    known_sigs, known_hits, new_hits = props.classify_hits(pid, [dict(h, prop=pid) for h in r["hits"]])
    lines, violation = [], False
    broken_tie = r["summary"] is None or r["summary"][2] != 0 or r["harness_rc"] != 0 or r["driver_rc"] != 0
    if new_hits:
        path = write_replay(pid, "mon-%d" % sd, {"property": pid, "kind": "monitor", "what": new_hits[0]["desc"], "signature": new_hits[0]["sig"], "history_cmd": "verifh quorum %d %s" % (sd, tier), "hits": new_hits[:10]})
        lines.append("VIOLATION property=%s replay=%s" % (pid, path))
        violation = True
    elif not ps["ok"] or broken_tie:
        path = write_replay(pid, "tie-%d" % sd, {"property": pid, "kind": "no-failing-input-found",
                                                 "no_longer_checks": {"proofs_ok": ps["ok"], "proof_log": ps["build_log"] or ps["oblig_log"], "forbidden": ps["forbidden"], "correspondence_diffs": r["qdiff"], "summary": r["summary"]},
                                                 "searched": "arithmetic monitor over %d contexts: no hit" % r["contexts"]})
        lines.append("VIOLATION property=%s replay=%s no-failing-input-found" % (pid, path))
        violation = True
    return props.finish(pid, ev, lines, violation, known_sigs, known_hits)


def decide_todo(pid, tier, sd):
    ps = props.proof_status(pid)
    ev = props.base_evidence(pid, tier, sd, ps)
    ev["coverage"].update({"evaluations": 0, "distinct_nontrivial": 0, "explanation": "decider under construction: proof obligations only"})
    return props.finish(pid, ev, [], False, {}, [])


DECIDERS = {"quorum": decide_quorum, "sim": decide_todo, "timer": decide_todo, "ref": decide_todo, "tla": decide_todo}
