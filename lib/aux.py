"""Deciders for the properties with their own small models: C06 quorum, C17 simulation, C18 timer, C19 reference code,
C20 TLA+ specs."""
import json
import os
import re
import time

from common import *  # noqa
import props  # noqa


def _fail_build(pid, ev, what, log):
    path = write_replay(pid, "build", {"property": pid, "kind": "no-failing-input-found", "no_longer_checks": what, "log": log[-3000:]})
    ev["coverage"].update({"evaluations": 0, "distinct_nontrivial": 0, "explanation": what})
    return props.finish(pid, ev, ["VIOLATION property=%s replay=%s no-failing-input-found" % (pid, path)], True, {}, [])


# ------------------------------------------------------------------------------------------------------- C06
def decide_quorum(pid, tier, sd):
    ps = props.proof_status(pid)
    ev = props.base_evidence(pid, tier, sd, ps)
    h = build_harness()
    if not h["ok"]:
        return _fail_build(pid, ev, "harness does not build against /repo", h["log"])
    d = build_driver()
    if not d["ok"]:
        return _fail_build(pid, ev, "extracted driver does not build", d["log"])
    key = "quorum-%s-%d-%s-%s" % (tier, sd, repo_hash(), verif_hash())

    def go():
        out = os.path.join(WORK, "quorum-%s.txt" % key)
        with open(out, "w") as f:
            hp = subprocess.run([h["bin"], "quorum", str(sd), tier], stdout=f, stderr=subprocess.PIPE, text=True, timeout=1500)
        dr = sh([d["bin"], "--quorum", out], check=False)
        # independent monitor: the property's own arithmetic evaluated on what the library printed
        hits, contexts, values, samples, distinct, wrap = [], 0, 0, [], set(), {}
        with open(out) as f:
            for line in f:
                t = line.split()
                if not t or t[0] != "Q":
                    continue
                contexts += 1
                N, hgt, F, M, pidx = (int(x) for x in t[1:6])
                ps_ = [int(x) for x in t[6:]]
                values += 3 + len(ps_)
                distinct.add((N, hgt))
                if len(samples) < 3:
                    samples.append("N=%d BlockIndex=%d -> F=%d M=%d primary(views 0..5)=%s" % (N, hgt, F, M, ps_[:6]))
                if F != (N - 1) // 3 or M != N - F or not (2 * M - N >= F + 1):
                    hits.append({"sig": "quorum-arithmetic", "desc": "N=%d: F=%d M=%d" % (N, F, M)})
                for v, p in enumerate(ps_):
                    if p != (hgt - v) % N or not (0 <= p < N):
                        hits.append({"sig": "primary-not-h-minus-v-mod-n", "desc": "N=%d BlockIndex=%d view=%d: primary %d, expected %d" % (N, hgt, v, p, (hgt - v) % N)})
                        break
                if pidx != ps_[0]:
                    hits.append({"sig": "primary-index-field", "desc": "N=%d BlockIndex=%d: PrimaryIndex %d but GetPrimaryIndex(0)=%d" % (N, hgt, pidx, ps_[0])})
                if hgt in (0, 2 ** 32 - 1) and N > 1:
                    wrap.setdefault(N, {})[hgt] = ps_[0]
                    if len(wrap[N]) == 2 and wrap[N][0] == wrap[N][2 ** 32 - 1]:
                        hits.append({"sig": "rotation-across-uint32-wrap", "desc": "N=%d: block indices 2^32-1 and 0 (consecutive across the uint32 wrap) have the same primary %d" % (N, ps_[0])})
                w = min(N, 256)
                if len(set(ps_[:w])) != w:
                    hits.append({"sig": "rotation-not-exactly-once", "desc": "N=%d BlockIndex=%d: %d distinct primaries over %d consecutive views" % (N, hgt, len(set(ps_[:w])), w)})
        os.remove(out)
        m = re.search(r"QSUMMARY contexts (\d+) values (\d+) disagreements (\d+)", dr.stdout)
        return {"harness_rc": hp.returncode, "driver_rc": dr.returncode, "qdiff": [l for l in dr.stdout.split("\n") if l.startswith("QDIFF")][:20],
                "summary": [int(x) for x in m.groups()] if m else None, "hits": hits[:50], "contexts": contexts, "values": values,
                "samples": samples, "distinct": len(distinct)}
    r = cached(key, go)
    cov = ev["coverage"]
    cov.update({"evaluations": r["values"], "distinct_nontrivial": r["distinct"],
                "rule": "one evaluation = one value (F, M, PrimaryIndex or GetPrimaryIndex(view)) read from a real Context built through Start/Reset with N validators at a chosen ledger height and compared with the extracted Coq function; distinct = distinct (N, BlockIndex) pairs; N in 1..256 (thorough 1..4096) plus seeded N up to 65535, heights around 0, N, 2^31 and 2^32-1",
                "samples": r["samples"], "disagreements_checked": len(r["qdiff"]), "cache_reused": r.get("_cache_reused", False),
                "explanation": "theorems for every N >= 1 (unbounded) in Quorum.v; the Go expressions are tied to the Coq ones by evaluating both on the same contexts"})
    known_sigs, known_hits, new_hits = props.classify_hits(pid, [dict(h, prop=pid) for h in r["hits"]])
    lines, violation = [], False
    broken_tie = r["summary"] is None or r["summary"][2] != 0 or r["harness_rc"] != 0 or r["driver_rc"] != 0
    if new_hits:
        path = write_replay(pid, "mon-%d" % sd, {"property": pid, "kind": "monitor", "what": new_hits[0]["desc"], "signature": new_hits[0]["sig"], "history_cmd": "verifh quorum %d %s" % (sd, tier), "hits": new_hits[:10]})
        lines.append("VIOLATION property=%s replay=%s" % (pid, path))
        violation = True
    elif not ps["ok"] or broken_tie:
        path = write_replay(pid, "tie-%d" % sd, {"property": pid, "kind": "no-failing-input-found",
                                                 "no_longer_checks": {"proofs_ok": ps["ok"], "proof_log": ps["build_log"] or ps["oblig_log"], "forbidden": ps["forbidden"], "correspondence_diffs": r["qdiff"], "summary": r["summary"]},
                                                 "searched": "arithmetic monitor over %d contexts: no hit" % r["contexts"]})
        lines.append("VIOLATION property=%s replay=%s no-failing-input-found" % (pid, path))
        violation = True
    if not violation:   # the cached PrimaryIndex of running nodes (monitor on the node histories)
        line, ncov = props.node_side(pid, tier, sd)
        cov.update(ncov)
        if line:
            lines.append(line)
            violation = True
    return props.finish(pid, ev, lines, violation, known_sigs, known_hits)


def decide_todo(pid, tier, sd):
    ps = props.proof_status(pid)
    ev = props.base_evidence(pid, tier, sd, ps)
    ev["coverage"].update({"evaluations": 0, "distinct_nontrivial": 0, "explanation": "decider under construction: proof obligations only"})
    return props.finish(pid, ev, [], False, {}, [])


DECIDERS = {"quorum": decide_quorum, "sim": decide_todo, "timer": decide_todo, "ref": decide_todo, "tla": decide_todo}


# ------------------------------------------------------------------------------------------------------- C20
JAR = "/opt/veriftools/tla/tla2tools.jar"
TLA_SPECS = {
    # name: (dir, file, invariants, extra constants, constraint, d_Next const args, d_Init const args, coq module)
    "dbft": ("dbft", "dbft", "TypeOK InvTwoBlocksAccepted InvFaultNodesCount", "", "MaxViewConstraint"),
    "antiMEV": ("dbft_antiMEV", "dbft", "TypeOK InvTwoBlocksAccepted InvFaultNodesCount", "", "MaxViewConstraint"),
    "CV3": ("dbft2.1_threeStagedCV", "dbftCV3", "TypeOK InvTwoBlocksAccepted InvFaultNodesCount", "", "MaxViewConstraint"),
    "centralizedCV": ("dbft2.1_centralizedCV", "dbftCentralizedCV", "TypeOK InvTwoBlocksAcceptedAdvanced InvFaultNodesCount", "", "MaxViewConstraint"),
    "multipool": ("dbftMultipool", "dbftMultipool", "TypeOK InvTwoBlocksAccepted InvFaultNodesCount", "  MaxUndeliveredMessages = 6\n", "ModelConstraint"),
}
FAULTS = {"good": ("{}", "{}"), "fault3": ("{3}", "{}"), "dead3": ("{}", "{3}"),
          # one faulty and one other dead node: more than F = 1 together; every shipped ASSUME refuses these constants (TLC stops at once)
          "fault3dead2": ("{3}", "{2}")}


def _tlc(spec, fault, budget, dump=None, invariants=True, workers=4):
    d, f, invs, extra, constraint = TLA_SPECS[spec]
    wd = os.path.join(WORK, "tla", "run-%s-%s-%s-%d" % (spec, fault, "dump" if dump else "inv", os.getpid()))
    sh("rm -rf %s && mkdir -p %s" % (wd, wd))
    sh("cp %s/formal-models/%s/%s.tla %s/" % (REPO, d, f, wd))
    rf, rd = FAULTS[fault]
    cfg = "CONSTANTS\n  RM = {0,1,2,3}\n  RMFault = %s\n  RMDead = %s\n  MaxView = 1\n%sINIT Init\nNEXT Next\nCONSTRAINT %s\n%sCHECK_DEADLOCK FALSE\n" % (
        rf, rd, extra, constraint, ("INVARIANTS %s\n" % invs) if invariants else "")
    with open(os.path.join(wd, "MC.cfg"), "w") as fh:
        fh.write(cfg)
    cmd = "timeout %d java -Djava.io.tmpdir=%s -XX:+UseParallelGC -Xmx5g -cp %s tlc2.TLC -workers %d -metadir %s/meta -config MC.cfg %s %s.tla" % (
        budget, wd, JAR, workers, wd, ("-dump dot,actionlabels %s/graph" % wd) if dump else "", f)
    t0 = time.time()
    p = sh(cmd, cwd=wd, check=False, timeout=budget + 60)
    out = p.stdout
    m = re.search(r"(\d+) states generated, (\d+) distinct states found", out)
    viol = re.search(r"Invariant (\w+) is violated", out)
    trace = ""
    if viol:
        i = out.find("Error: Invariant")
        trace = out[i:i + 20000]
    res = {"spec": spec, "fault": fault, "rc": p.returncode, "timed_out": p.returncode == 124, "complete": "Model checking completed" in out,
           "generated": int(m.group(1)) if m else 0, "distinct": int(m.group(2)) if m else 0, "violated": viol.group(1) if viol else None,
           "trace": trace, "wall_s": round(time.time() - t0, 1), "cfg": cfg, "wd": wd,
           "error": "" if (m or viol or p.returncode == 124) else out[-1500:]}
    # the checker was stopped from outside (time budget, memory pressure) after it had started exploring and without reporting an
    # error of its own: an incomplete exploration, not a broken specification
    if res["error"] and p.returncode in (137, 143, -9, -15, 1) and re.search(r"states generated", out) and not re.search(r"Error:|Exception|is violated|Parse|Semantic", out):
        res["error"], res["timed_out"], res["stopped_rc"] = "", True, p.returncode

    if re.search(r"Assumption .* is false", out):
        res["assume_refused"], res["error"] = True, ""
    if not m:
        mm = re.findall(r"([\d,]+) states generated.*?([\d,]+) distinct states", out)
        if mm:
            res["generated"], res["distinct"] = int(mm[-1][0].replace(",", "")), int(mm[-1][1].replace(",", ""))
    return res


def _edge_check(spec, budget, nedges):
    """TLC's successor relation (a BFS prefix under RMFault={3}) must be accepted by the generated next_b"""
    r = _tlc(spec, "fault3", budget, dump=True, invariants=False)
    wd = r["wd"]
    dot = os.path.join(wd, "graph.dot")
    out = {"spec": spec, "tlc": {k: r[k] for k in ("generated", "distinct", "timed_out", "wall_s")}, "ok": False}
    if not os.path.exists(dot):
        out["error"] = "no dot dump: " + r.get("error", "")[:500]
        sh("rm -rf %s" % wd)
        return out
    gen = os.path.join(COQ, "theories", "Tla", "gen", "Spec_%s.v" % spec)
    na = "[3] [] [0;1;2;3]" if spec != "multipool" else "[3] [] 6 [0;1;2;3]"
    # the section-variable order of the generated d_Next / d_Init is read from the generated file by Check below
    chk = os.path.join(wd, "Chk_%s.v" % spec)
    p = sh("python3 %s/tla2coq/dot2coq.py %s %s 400000 %d '%s' '%s' Spec_%s > %s" % (VERIF, dot, gen, nedges, "NEXTARGS", "INITARGS", spec, chk), check=False)
    out["sampled"] = p.stdout.strip()[-300:]
    sh("rm -f %s" % dot)
    with open(gen) as fh:
        src = fh.read()
    # constants in section order: every `Variable X` before the definitions
    consts = re.findall(r"^Variable (\w+) :", src, re.M)
    vals = {"RM": "[0;1;2;3]", "RMFault": "[3]", "RMDead": "[]", "MaxView": "1", "MaxUndeliveredMessages": "6"}

    def args_of(defname):
        m = re.search(r"Definition %s\b(.*?):=" % defname, src, re.S)
        body_start = src.find("Definition %s" % defname)
        # after End Spec a definition takes exactly the section variables it mentions (transitively); ask Coq
        return None
    with open(chk) as fh:
        c = fh.read()
    # let Coq tell which constants each definition takes: try the plausible argument lists until one type-checks
    import itertools
    # cheap way: generate a probe file printing the types
    probe = os.path.join(wd, "Probe.v")
    with open(probe, "w") as fh:
        fh.write("From DbftV Require Import TlaPrelude Spec_%s.\nCheck d_Next.\nCheck d_Init.\n" % spec)
    pp = sh("coqc -Q %s/theories DbftV %s" % (COQ, probe), cwd=wd, check=False)
    types = pp.stdout
    def nargs(name):
        m = re.search(r"%s\s*:\s*(.*?)(?=\n\S|\Z)" % name, types, re.S)
        return m.group(1) if m else ""
    def build_args(name):
        t = nargs(name)
        # count leading constant arguments: everything before the first 'state'
        pre = t.split("state")[0]
        k = pre.count("->")
        # constants mentioned by the definition appear in section order; choose the first k-subset (in order) that type-checks
        return k
    ctypes = dict(re.findall(r"^Variable (\w+) : \(?([\w ]+?)\)?\.", src, re.M))

    def cands_for(name):
        t = nargs(name).replace("\n", " ")
        pre = [x.strip().strip("()") for x in t.split("state")[0].split("->") if x.strip()]
        out_ = []
        for sub in itertools.combinations(consts, len(pre)):
            if [ctypes.get(x, "?").strip() for x in sub] == pre:
                out_.append(sub)
        return out_ or list(itertools.combinations(consts, len(pre)))
    found, pc = None, None
    for subn in cands_for("d_Next"):
        for subi in cands_for("d_Init"):
            c2 = c.replace("NEXTARGS", " ".join(vals[x] for x in subn)).replace("INITARGS", " ".join(vals[x] for x in subi))
            with open(chk, "w") as fh:
                fh.write(c2)
            pc = sh("timeout 2400 coqc -Q %s/theories DbftV %s" % (COQ, chk), cwd=wd, check=False)
            if pc.returncode == 0:
                found = pc.stdout
                break
        if found:
            break
    if found:
        m = re.search(r"R\s*=\s*\(\s*(true|false)\s*,\s*(\d+)\s*,\s*(\d+)\s*\)", found.replace("%nat", ""))
        if m:
            out.update({"init_ok": m.group(1) == "true", "edges": int(m.group(2)), "rejected": int(m.group(3))})
            out["ok"] = out["init_ok"] and out["rejected"] == 0 and out["edges"] > 0
        else:
            out["error"] = "cannot parse: " + found[-300:]
    else:
        out["error"] = "edge check file does not compile (rc=%s): " % (pc.returncode if pc else "?") + (pc.stdout[-600:] if pc else types[-300:])
    sh("rm -rf %s" % wd)
    return out


def decide_tla(pid, tier, sd):
    ps = props.proof_status(pid)
    ev = props.base_evidence(pid, tier, sd, ps)
    key = "tla-%s-%d-%s-%s" % (tier, sd, file_hash(tree_files(os.path.join(REPO, "formal-models"), (".tla",))), verif_hash())
    quick = tier == "quick"

    def go():
        import concurrent.futures
        jobs = []
        for spec in TLA_SPECS:
            small = spec in ("dbft", "antiMEV")
            for fault in FAULTS:
                if quick:
                    if spec == "dbft":
                        budget = 120
                    elif spec == "antiMEV":
                        budget = 120 if fault != "fault3" else 30  # 2.6M states with a faulty node: thorough tier
                    else:
                        budget = {"fault3": 25, "good": 150}.get(fault, 0)   # the three large specs: BFS prefixes only (fault-free: deep enough for the view-change paths)
                else:
                    budget = 900 if small else 2400
                if fault == "fault3dead2":
                    budget = 40 if quick else 300   # refused by the ASSUME at once; a search only if the ASSUME was weakened
                if budget:
                    jobs.append(("inv", spec, fault, budget))
            jobs.append(("edge", spec, None, 20 if quick else 240))
        def run(j):
            if j[0] == "inv":
                r = _tlc(j[1], j[2], j[3], workers=2)
                sh("rm -rf %s" % r["wd"])
                r.pop("wd", None)
                return ("inv", r)
            return ("edge", _edge_check(j[1], j[3], 150 if quick else (4000 if j[1] in ("dbft", "antiMEV") else 1200)))
        with concurrent.futures.ThreadPoolExecutor(max_workers=8) as ex:
            res = list(ex.map(run, jobs))
        return {"inv": [r for k, r in res if k == "inv"], "edge": [r for k, r in res if k == "edge"]}
    g = tla_gen()
    if not g["ok"]:
        return _fail_build(pid, ev, "tla2coq cannot translate the current .tla files (translator fails closed)", g["log"])
    r = cached(key, go)
    hits = []
    for x in r["inv"]:
        if x["violated"]:
            sig = "%s/%s/%s" % ({"CV3": "dbftCV3"}.get(x["spec"], x["spec"]), x["violated"], {"fault3": "RMFault", "dead3": "RMDead", "fault3dead2": "RMFault+RMDead"}.get(x["fault"], "allgood"))
            hits.append({"prop": pid, "sig": sig, "desc": "TLC: %s violated in %s with %s" % (x["violated"], x["spec"], x["fault"]), "trace": x["trace"][:6000], "cfg": x["cfg"]})
    known_sigs, known_hits, new_hits = props.classify_hits(pid, hits)
    bad_edges = [e for e in r["edge"] if not e.get("ok")]
    tlc_errors = [x for x in r["inv"] if x.get("error")]
    states = sum(x["distinct"] for x in r["inv"])
    cov = ev["coverage"]
    cov.update({
        "programs": 5, "disagreements_checked": sum(e.get("edges", 0) for e in r["edge"]),
        "states": states, "transitions": sum(x["generated"] for x in r["inv"]), "traces_validated_against_impl": sum(e.get("edges", 0) for e in r["edge"]),
        "evaluations": states, "distinct_nontrivial": states,
        "rule": "states = distinct states TLC explored on the shipped constants (RM={0..3}, MaxView=1) for each spec x {all good, RMFault={3}, RMDead={3}} within the tier's time budget; edge check = TLC-dumped transitions (RMFault={3}) that the generated Coq next-state checker must accept",
        "samples": [{"spec": x["spec"], "fault": x["fault"], "distinct_states": x["distinct"], "complete": x["complete"], "violated": x["violated"], "refused_by_ASSUME": bool(x.get("assume_refused")), "wall_s": x["wall_s"]} for x in r["inv"]],
        "edge_check": r["edge"], "cache_reused": r.get("_cache_reused", False),
        "explanation": "proved for every RM (any N), unbounded views, |RMFault| <= F on the models regenerated from the .tla files: InvTwoBlocksAccepted of dbft.tla and dbft_antiMEV/dbft.tla; dbftCV3 refuted by a checked witness (known finding); TypeOK / InvFaultNodesCount and the two larger specs are covered by TLC on the shipped constants only (DESIGN.md C20)",
    })
    lines, violation = [], False
    if new_hits:
        h = new_hits[0]
        path = write_replay(pid, "tlc-%d" % sd, {"property": pid, "kind": "monitor", "signature": h["sig"], "what": h["desc"], "tlc_cfg": h["cfg"], "tlc_trace": h["trace"], "all": [x["sig"] for x in new_hits]})
        lines.append("VIOLATION property=%s replay=%s" % (pid, path))
        violation = True
    elif not ps["ok"] or bad_edges or tlc_errors:
        path = write_replay(pid, "tie-%d" % sd, {"property": pid, "kind": "no-failing-input-found", "no_longer_checks": {
            "proofs_ok": ps["ok"], "proof_log": ps["build_log"] or ps["oblig_log"], "theorems": ps["names"], "forbidden": ps["forbidden"],
            "edge_check_failures": bad_edges, "tlc_errors": [{"spec": x["spec"], "fault": x["fault"], "error": x["error"][:800]} for x in tlc_errors]},
            "searched": "TLC on the shipped constants, all five specs x {all good, RMFault={3}, RMDead={3}}: %d distinct states, no invariant violation outside the known finding" % states})
        lines.append("VIOLATION property=%s replay=%s no-failing-input-found" % (pid, path))
        violation = True
    return props.finish(pid, ev, lines, violation, known_sigs, known_hits)


DECIDERS["tla"] = decide_tla


# ------------------------------------------------------------------------------------------------------- C18
def build_tdriver():
    with Lock("coq-build"):
        ext = os.path.join(COQ, "extraction")
        key = "tdriver-" + file_hash([os.path.join(COQ, "theories", "Timer", "TimerModel.v"), os.path.join(ext, "ExtractTimer.v"), os.path.join(ext, "tdriver.ml")])
        out = os.path.join(WORK, "bin", key)
        if os.path.exists(out):
            return {"ok": True, "bin": out, "log": ""}
        os.makedirs(os.path.dirname(out), exist_ok=True)
        p = sh("coqc -Q theories DbftV extraction/ExtractTimer.v > /dev/null && mv tmodel.ml tmodel.mli extraction/ && cd extraction && "
               "ocamlfind ocamlopt -O3 -w -a tmodel.mli tmodel.ml tdriver.ml -o %s" % out, cwd=COQ, check=False)
        return {"ok": p.returncode == 0 and os.path.exists(out), "bin": out, "log": p.stdout[-3000:]}


def decide_timer(pid, tier, sd):
    ps = props.proof_status(pid)
    ev = props.base_evidence(pid, tier, sd, ps)
    h = build_harness()
    if not h["ok"]:
        return _fail_build(pid, ev, "harness does not build against /repo", h["log"])
    d = build_tdriver()
    if not d["ok"]:
        return _fail_build(pid, ev, "extracted timer driver does not build", d["log"])
    nseq = 96 if tier == "quick" else 1500
    key = "timer-%s-%d-%s-%s" % (tier, sd, file_hash(tree_files(os.path.join(REPO, "timer"), (".go",))), verif_hash())

    def go():
        out = os.path.join(WORK, "timer-%s.txt" % key)
        with open(out, "w") as f:
            hp = subprocess.run([h["bin"], "timer", str(sd), str(nseq)], stdout=f, stderr=subprocess.PIPE, text=True, timeout=1500)
        dr = sh([d["bin"], out], check=False)
        # the property's own predicate on what the real timer did (independent of the model)
        hits, samples, seq, kinds = [], [], -1, {}
        a0 = dtot = None
        hv = None
        with open(out) as f:
            for line in f:
                t = line.split()
                if not t:
                    continue
                kinds[t[0]] = kinds.get(t[0], 0) + 1
                if t[0] == "SEQ":
                    seq, a0, dtot, hv = int(t[1]), None, None, None
                    cur = []
                    if len(samples) < 3:
                        samples.append(cur)
                elif t[0] == "RESET":
                    a0, dtot, hv = int(t[1]), int(t[5]), (t[3], t[4])
                elif t[0] == "EXTEND" and a0 is not None:
                    dtot += int(t[3])
                elif t[0] == "READ" and t[3] == "1":
                    if a0 is None:
                        hits.append({"sig": "expiry-without-reset", "desc": "sequence %d: an expiry was delivered although the timer was never reset" % seq})
                    else:
                        if int(t[2]) < a0 + dtot:
                            hits.append({"sig": "early-expiry", "desc": "sequence %d: expiry delivered at %d ns, reset at >= %d ns with duration+extensions %d ns (%.1f ms early)" % (seq, int(t[2]), a0, dtot, (a0 + dtot - int(t[2])) / 1e6)})
                        if (t[4], t[5]) != hv:
                            hits.append({"sig": "wrong-epoch", "desc": "sequence %d: Height/View %s/%s after the latest Reset(%s,%s)" % (seq, t[4], t[5], hv[0], hv[1])})
                if t[0] != "SEQ" and len(samples) <= 3 and samples and len(samples[-1]) < 12 and seq < 3:
                    samples[-1].append(line.strip())
        os.remove(out)
        m = re.search(r"TSUMMARY seqs (\d+) ops (\d+) reads (\d+) values (\d+) disagreements (\d+)", dr.stdout)
        tdiff = [l for l in dr.stdout.split("\n") if l.startswith("TDIFF")]
        return {"harness_rc": hp.returncode, "driver_rc": dr.returncode, "summary": [int(x) for x in m.groups()] if m else None,
                "tdiff": tdiff[:30], "hits": hits[:30], "samples": samples, "kinds": kinds}
    r = cached(key, go)
    # lateness is a runtime clause: a LATE diff is reported as a violation only if it reproduces in a second, smaller run
    late = [x for x in r["tdiff"] if "kind=LATE" in x]
    hard = [x for x in r["tdiff"] if "kind=LATE" not in x]
    for x in hard:
        kind = re.search(r"kind=(\w+)", x).group(1)
        r["hits"].append({"sig": {"EARLY": "early-expiry", "EPOCH": "wrong-epoch"}.get(kind, kind), "desc": "model replay: " + x})
    known_sigs, known_hits, new_hits = props.classify_hits(pid, [dict(x, prop=pid) for x in r["hits"]])
    summ = r["summary"] or [0, 0, 0, 0, 0]
    cov = ev["coverage"]
    cov.update({"evaluations": summ[1], "distinct_nontrivial": summ[3] + len(r["kinds"]),
                "rule": "one evaluation = one Reset/Extend/non-blocking receive on C() performed on the real timer.Timer (durations 0..60 ms, sleeps up to 150 ms, %d sequences, 16 concurrently) and replayed through the extracted model with the measured monotonic instants; non-trivial = a delivered expiry (each compared with the earliest-deadline model and with the property's own arithmetic)" % nseq,
                "samples": r["samples"][:2], "disagreements_checked": len(r["tdiff"]), "late_beyond_tolerance": len(late), "op_kinds": r["kinds"],
                "cache_reused": r.get("_cache_reused", False),
                "explanation": "proved on the timer model over an abstract runtime (Go time.Timer/channel semantics as stated in TimerModel.v): never early, latest epoch, no stale expiry, availability at the deadline; the real timer is driven through seeded sequences and compared with the model. Delivery 'within scheduling tolerance' is a runtime clause: exercised with an 80 ms tolerance, not proved."})
    lines, violation = [], False
    broken_tie = r["summary"] is None or r["harness_rc"] != 0 or r["driver_rc"] != 0
    if new_hits:
        path = write_replay(pid, "mon-%d" % sd, {"property": pid, "kind": "monitor", "signature": new_hits[0]["sig"], "what": new_hits[0]["desc"], "history_cmd": "verifh timer %d %d" % (sd, nseq), "hits": new_hits[:10]})
        lines.append("VIOLATION property=%s replay=%s" % (pid, path))
        violation = True
    elif len(late) > 3:
        path = write_replay(pid, "late-%d" % sd, {"property": pid, "kind": "monitor", "signature": "late-expiry", "what": late[0], "history_cmd": "verifh timer %d %d" % (sd, nseq), "hits": late[:10]})
        lines.append("VIOLATION property=%s replay=%s" % (pid, path))
        violation = True
    elif not ps["ok"] or broken_tie:
        path = write_replay(pid, "tie-%d" % sd, {"property": pid, "kind": "no-failing-input-found", "no_longer_checks": {"proofs_ok": ps["ok"], "proof_log": ps["build_log"] or ps["oblig_log"], "forbidden": ps["forbidden"], "summary": r["summary"]}})
        lines.append("VIOLATION property=%s replay=%s no-failing-input-found" % (pid, path))
        violation = True
    return props.finish(pid, ev, lines, violation, known_sigs, known_hits)


DECIDERS["timer"] = decide_timer


# ------------------------------------------------------------------------------------------------------- C19
def build_xdriver(name, sources, extract_v, mlfiles):
    with Lock("coq-build"):
        ext = os.path.join(COQ, "extraction")
        key = "%s-%s" % (name, file_hash(sources + [os.path.join(ext, extract_v)] + [os.path.join(ext, m) for m in mlfiles if not m.endswith("model.ml") and not m.endswith("model.mli")]))
        out = os.path.join(WORK, "bin", key)
        if os.path.exists(out):
            return {"ok": True, "bin": out, "log": ""}
        os.makedirs(os.path.dirname(out), exist_ok=True)
        gen = [m for m in mlfiles if m.endswith("model.ml") or m.endswith("model.mli")]
        p = sh("coqc -Q theories DbftV extraction/%s > /dev/null && mv %s extraction/ && cd extraction && ocamlfind ocamlopt -O3 -w -a %s -o %s" % (
            extract_v, " ".join(gen), " ".join(mlfiles), out), cwd=COQ, check=False)
        return {"ok": p.returncode == 0 and os.path.exists(out), "bin": out, "log": p.stdout[-3000:]}


def decide_ref(pid, tier, sd):
    ps = props.proof_status(pid)
    ev = props.base_evidence(pid, tier, sd, ps)
    h = build_harness()
    if not h["ok"]:
        return _fail_build(pid, ev, "harness does not build against /repo", h["log"])
    d = build_xdriver("rdriver", [os.path.join(COQ, "theories", "Ref", f) for f in ("Sha256.v", "Merkle.v", "RefModel.v", "Recovery.v")], "ExtractRef.v", ["rmodel.mli", "rmodel.ml", "rdriver.ml"])
    if not d["ok"]:
        return _fail_build(pid, ev, "extracted reference-code driver does not build", d["log"])
    n = 400 if tier == "quick" else 20000
    key = "ref-%s-%d-%s-%s" % (tier, sd, file_hash(tree_files(os.path.join(REPO, "internal"), (".go",))), verif_hash())

    def go():
        out = os.path.join(WORK, "ref-%s.txt" % key)
        with open(out, "w") as f:
            hp = subprocess.run([h["bin"], "ref", str(sd), str(n)], stdout=f, stderr=subprocess.PIPE, text=True, timeout=1500)
        dr = sh([d["bin"], out], check=False, timeout=3000)
        hits, cnt, samples, nh, nm = [], 0, [], 0, 0
        kinds = {}
        with open(out) as f:
            for line in f:
                if line.startswith("MON C19 "):
                    p_ = line.rstrip("\n").split(" ", 3)
                    hits.append({"sig": p_[2], "desc": line.split("|", 1)[1].strip()[:300]})
                elif line.startswith("MONCNT C19"):
                    cnt = int(line.split()[2])
                elif line.startswith("RMADD "):
                    k_ = line.split(" ", 2)[1]
                    kinds[k_] = kinds.get(k_, 0) + 1
                elif line.startswith("H256"):
                    nh += 1
                elif line.startswith("MK"):
                    nm += 1
                    if len(samples) < 2:
                        samples.append(line.strip()[:200])
        os.remove(out)
        m = re.search(r"RSUMMARY hashes (\d+) trees (\d+) disagreements (\d+) recovery-dumps (\d+) packed (\d+) payload-codec (\d+)", dr.stdout)
        return {"harness_rc": hp.returncode, "harness_err": hp.stderr[-500:], "driver_rc": dr.returncode, "summary": [int(x) for x in m.groups()] if m else None,
                "rdiff": [l for l in dr.stdout.split("\n") if l.startswith("RDIFF")][:20], "hits": hits, "checks": cnt, "samples": samples, "nh": nh, "nm": nm, "rm_kinds": kinds}
    r = cached(key, go)
    known_sigs, known_hits, new_hits = props.classify_hits(pid, [dict(x, prop=pid) for x in r["hits"]])
    cov = ev["coverage"]
    nrm = (r["summary"] or [0, 0, 0, 0, 0, 0])[3]
    npt = (r["summary"] or [0, 0, 0, 0, 0, 0])[5]
    cov.update({"evaluations": r["checks"] + r["nh"] + r["nm"] + nrm + npt, "distinct_nontrivial": r["checks"],
                "rule": "monitor checks on the real internal/consensus, internal/crypto, internal/merkle code: single-field mutations of payloads of every kind and of blocks, same-object index change, encode/decode round trips (also into a used object), recovery-message packing, %d arbitrary / mutated byte strings into the decoder under recover, sign/verify with wrong key / altered data / altered signature, leaf and order changes of Merkle trees; plus %d Hash256 digests and %d Merkle roots compared with the extracted Coq SHA-256 / Merkle model; plus %d dumps of what generated recovery messages rebuild (request, responses, ChangeViews, pre-commits, commits - on the sender and after encode/decode of the recovery payload) compared with the extracted model of AddPayload / Get* / the fields the codec carries (Ref/Recovery.v); packed payloads by kind: %s; plus %d generated payloads of the five packable kinds whose decode(encode(p)) is compared field by field with the model's transmit_payload" % (n, r["nh"], r["nm"], nrm, json.dumps(r.get("rm_kinds", {}), sort_keys=True), npt),
                "samples": r["samples"], "disagreements_checked": len(r["rdiff"]), "cache_reused": r.get("_cache_reused", False),
                "explanation": "proved: Merkle-tree structure (same-length injectivity under collision freedom; duplicate-last-leaf refuted for every hash function), the Coq SHA-256 on the FIPS vector; for every packing sequence of the recovery message: the proposal packed last is rebuilt as itself (hence with its hash) under a recovery payload of its height and view, rebuilt responses name it, commits / pre-commits / ChangeViews are neither dropped nor duplicated nor reordered and keep signer and signature / data, and across the codec everything but the responses packed together with the proposal survives (D19 as a theorem about every such message). Not provable here and only exercised: collision resistance of SHA-256, ECDSA, clean failure of encoding/gob's decoder on arbitrary bytes; the gob byte format is not modelled (the payload-hash clauses are decided by the mutation monitors on the real code)."})
    lines, violation = [], False
    broken_tie = r["summary"] is None or r["summary"][2] != 0 or r["harness_rc"] != 0 or r["driver_rc"] != 0
    if new_hits:
        path = write_replay(pid, "mon-%d" % sd, {"property": pid, "kind": "monitor", "signature": new_hits[0]["sig"], "what": new_hits[0]["desc"], "history_cmd": "verifh ref %d %d" % (sd, n), "hits": new_hits[:10]})
        lines.append("VIOLATION property=%s replay=%s" % (pid, path))
        violation = True
    elif not ps["ok"] or broken_tie:
        path = write_replay(pid, "tie-%d" % sd, {"property": pid, "kind": "no-failing-input-found", "no_longer_checks": {"proofs_ok": ps["ok"], "proof_log": ps["build_log"] or ps["oblig_log"], "forbidden": ps["forbidden"], "summary": r["summary"], "diffs": r["rdiff"], "harness_err": r["harness_err"]}})
        lines.append("VIOLATION property=%s replay=%s no-failing-input-found" % (pid, path))
        violation = True
    return props.finish(pid, ev, lines, violation, known_sigs, known_hits)


# ------------------------------------------------------------------------------------------------------- C17
def decide_sim(pid, tier, sd):
    ps = props.proof_status(pid)
    ev = props.base_evidence(pid, tier, sd, ps)
    dur = 12 if tier == "quick" else 40
    key = "sim-%s-%s-%s" % (tier, repo_hash(), verif_hash())

    def go():
        binp = os.path.join(WORK, "bin", "simbin-%d" % os.getpid())
        os.makedirs(os.path.dirname(binp), exist_ok=True)
        b = sh([GO, "build", "-o", binp, "./internal/simulation"], cwd=REPO, env=GOENV, check=False)
        if b.returncode != 0:
            return {"build_ok": False, "log": b.stdout[-2000:]}
        runs = []
        with Lock("sim-port-6060"):   # the example serves pprof on localhost:6060: one instance at a time
            for cfg in (["-count", "4", "-watchers", "1"], ["-count", "1", "-watchers", "0"], ["-count", "4", "-watchers", "1", "-blocked", "2"]) + ((["-count", "7", "-watchers", "2"], ["-count", "7", "-watchers", "0", "-blocked", "1"]) if tier != "quick" else ()):
                rdur = dur if "-blocked" not in cfg else max(dur, 27)   # with a validator cut off every N-th height needs a view change
                p = sh("timeout %d %s %s -duration %ds 2>&1 | grep -a 'approving block\\|panic\\|bind' | head -2000" % (rdur + 20, binp, " ".join(cfg), rdur), check=False, timeout=rdur + 60)
                heights = {}
                hashes = {}
                for line in p.stdout.split("\n"):
                    m = re.search(r'"id": (\d+), "height": (\d+), "hash": "([0-9a-f]+)"', line)
                    if m:
                        i, hh, hs = int(m.group(1)), int(m.group(2)), m.group(3)
                        heights[i] = max(heights.get(i, 0), hh)
                        hashes.setdefault(hh, set()).add(hs)
                runs.append({"cfg": " ".join(cfg), "duration_s": rdur, "heights": heights, "forks": [h_ for h_, v in hashes.items() if len(v) > 1],
                             "other": [l[:200] for l in p.stdout.split("\n") if "panic" in l or "bind" in l][:3], "lines": len(p.stdout.split("\n"))})
        os.remove(binp)
        return {"build_ok": True, "runs": runs}
    r = cached(key, go)
    if not r.get("build_ok"):
        return _fail_build(pid, ev, "internal/simulation does not build", r.get("log", ""))
    hits = []
    want = dur // 5 - 1 + 1   # blocks at about 0 s, 5 s, 10 s ...: at least floor(T/5) of them, one spared for start-up
    for run in r["runs"]:
        nvals = int(run["cfg"].split()[1])
        if "-blocked" in run["cfg"]:
            # one validator cut off: the heights it should lead need a view change, so fewer blocks - but every validator keeps up
            got = [run["heights"].get(str(i), run["heights"].get(i, 0)) for i in range(nvals)]
            if max(got) < 3 or min(got) < max(got) - 1:
                hits.append({"sig": "chain-not-extended/blocked-validator", "desc": "simulation %s for %d s: validators reached heights %s (every validator should keep extending the chain, at most one block apart)" % (run["cfg"], run["duration_s"], got)})
            if run["forks"]:
                hits.append({"sig": "different-blocks", "desc": "simulation %s: different blocks approved at heights %s" % (run["cfg"], run["forks"])})
            continue
        for i in range(nvals):
            got = run["heights"].get(str(i), run["heights"].get(i, 0))
            if got < want:
                hits.append({"sig": "chain-not-extended", "desc": "simulation %s for %d s: validator %d reached height %d, at least %d expected" % (run["cfg"], run["duration_s"], i, got, want)})
                break
        if run["forks"]:
            hits.append({"sig": "different-blocks", "desc": "simulation %s: different blocks approved at heights %s" % (run["cfg"], run["forks"])})
    known_sigs, known_hits, new_hits = props.classify_hits(pid, [dict(x, prop=pid) for x in hits])
    cov = ev["coverage"]
    cov.update({"evaluations": len(r["runs"]), "distinct_nontrivial": sum(len(x["heights"]) for x in r["runs"]),
                "rule": "one evaluation = one run of the real simulation binary built from /repo (%d s each; 4 validators + 1 watcher, a single validator%s); distinct = nodes whose approved heights were parsed from the log; expected: every validator reaches height >= %d on equal block hashes" % (dur, "" if tier == "quick" else ", 7 validators + 2 watchers", want),
                "samples": r["runs"], "cache_reused": r.get("_cache_reused", False),
                "explanation": "proved on the driver-loop model whose shape is regenerated from main.go on every run (Sim/Driver.v): the ledger grows by one per block the library completes and the node is always re-initialised; that the library keeps deciding is C08 (synchronous runs). Goroutine scheduling, channel capacity and real timers are runtime: exercised by running the real binary, not proved."})
    lines, violation = [], False
    if new_hits:
        path = write_replay(pid, "sim", {"property": pid, "kind": "monitor", "signature": new_hits[0]["sig"], "what": new_hits[0]["desc"], "how": "go build ./internal/simulation && ./simulation <cfg> -duration %ds | grep 'approving block'" % dur, "hits": new_hits})
        lines.append("VIOLATION property=%s replay=%s" % (pid, path))
        violation = True
    elif not ps["ok"]:
        # the loop no longer has the proved shape: look for a run that stalls, also with one validator blocked (view changes)
        extra = _sim_blocked_run()
        if extra.get("stalled"):
            path = write_replay(pid, "sim-blocked", {"property": pid, "kind": "monitor", "signature": "chain-not-extended/blocked-validator", "what": extra["desc"],
                                                     "how": "go build ./internal/simulation && ./simulation -count 4 -watchers 0 -blocked 2 -duration 25s | grep 'approving block'", "run": extra})
            lines.append("VIOLATION property=%s replay=%s" % (pid, path))
        else:
            path = write_replay(pid, "tie", {"property": pid, "kind": "no-failing-input-found", "no_longer_checks": {"proofs_ok": ps["ok"], "proof_log": ps["build_log"] or ps["oblig_log"], "theorems": ps["names"], "forbidden": ps["forbidden"]},
                                             "searched": "ran the real simulation binary: %s; with a blocked validator: %s" % (json.dumps(r["runs"])[:1200], json.dumps(extra)[:400])})
            lines.append("VIOLATION property=%s replay=%s no-failing-input-found" % (pid, path))
        violation = True
    if not violation:   # what Reset - the call the example makes after every block - does to the payloads kept for the next height
        line, ncov = props.node_side(pid, tier, sd)
        cov.update(ncov)
        if line:
            lines.append(line)
            violation = True
    return props.finish(pid, ev, lines, violation, known_sigs, known_hits)


def _sim_blocked_run():
    """the shipped example with validator 2 cut off (-blocked 2): the others must get past the heights where it is primary"""
    binp = os.path.join(WORK, "bin", "simbin-b-%d" % os.getpid())
    b = sh([GO, "build", "-o", binp, "./internal/simulation"], cwd=REPO, env=GOENV, check=False)
    if b.returncode != 0:
        return {"error": "build failed"}
    try:
        with Lock("sim-port-6060"):
            p = sh("timeout 50 %s -count 4 -watchers 0 -blocked 2 -duration 25s 2>&1 | grep -a 'approving block' | head -500" % binp, check=False, timeout=90)
    finally:
        os.remove(binp)
    heights = {}
    for line in p.stdout.split("\n"):
        m = re.search(r'"id": (\d+), "height": (\d+)', line)
        if m:
            heights[int(m.group(1))] = max(heights.get(int(m.group(1)), 0), int(m.group(2)))
    top = max(heights.values()) if heights else 0
    return {"heights": heights, "stalled": top < 3,
            "desc": "simulation -count 4 -blocked 2 for 25 s: highest height reached %d (the view change at the height whose primary is blocked is never completed)" % top}


DECIDERS["ref"] = decide_ref
DECIDERS["sim"] = decide_sim
