"""Per-property decision procedures."""
import json
import os
import re
import time

from common import *  # noqa
import node  # noqa

TRUSTED_BASE = [
    "Coq 8.16.1 kernel (coqc, full .vo build through coq_makefile; no -vos/-vok; no native_compute; vm_compute used for witnesses and finite sweeps)",
    "no Axiom/Parameter/Conjecture/Admitted/admit in the development (grep over coq/ on every run); Print Assumptions under every property theorem",
    "hand-written Gallina models tied to /repo by the correspondence run of this check (harness in Go built from /repo with -tags verif; extracted OCaml driver)",
    "extraction: ExtrOcamlBasic only (bool, option, list, prod, unit, sumbool mapped to OCaml's), no Extract Constant / Extract Inductive of our own; coq/extraction/driver.ml parser+printer",
    "mock application contract (ideal signatures, injective canonical-encoding hashes, NewBlockFromContext a function of the context fields) - DESIGN.md section 7",
]

# level / technique per property; the MANIFEST is generated from this table (tools/mkmanifest.py)
PROPS = {
    "C01": dict(family="node", level="other", title="Agreement"),
    "C02": dict(family="node", level="other", title="Decision certificate"),
    "C03": dict(family="node", level="other", title="Non-equivocation and commit lock"),
    "C04": dict(family="node", level="other", title="Quorum-gated progress"),
    "C05": dict(family="node", level="other", title="One decision per height, quiescence, clean re-initialisation"),
    "C06": dict(family="quorum", level="proof", title="Quorum arithmetic and primary rotation"),
    "C07": dict(family="node", level="other", title="Anti-MEV phase discipline"),
    "C08": dict(family="node", level="other", title="Fault-free synchronous runs decide in view 0"),
    "C09": dict(family="node", level="other", title="Recovery liveness"),
    "C10": dict(family="node", level="other", title="No lost wake-up"),
    "C11": dict(family="node", level="other", title="Input hygiene"),
    "C12": dict(family="node", level="other", title="A backup given every requested transaction answers"),
    "C13": dict(family="node", level="other", title="Watch-only nodes are silent"),
    "C14": dict(family="node", level="other", title="Clock-shift invariance"),
    "C15": dict(family="node", level="other", title="Honest proposals are well formed"),
    "C16": dict(family="node", level="other", title="Dynamic block time"),
    "C17": dict(family="sim", level="other", title="The bundled simulation keeps extending its chain"),
    "C18": dict(family="timer", level="other", title="Bundled timer"),
    "C19": dict(family="ref", level="other", title="Reference payload/block/crypto code"),
    "C20": dict(family="tla", level="proof", title="The shipped TLA+ models keep their invariants"),
}


def proof_status(pid):
    """build the development, check the forbidden-token grep and the property file's obligations"""
    b = build_coq()
    forb = forbidden_tokens()
    has_file = os.path.exists(os.path.join(COQ, "theories", "Properties", pid + ".v"))
    if not has_file:  # no property theorems yet: nothing to discharge (the level cannot be 'proof' then)
        ob = {"ok": b["ok"], "theorems": [], "log": "", "stated": []}
    else:
        ob = property_obligations(pid) if b["ok"] else {"ok": False, "theorems": [], "log": b["log"][-1500:], "stated": []}
    names = [t["name"] for t in ob["theorems"]]
    bad_ax = []
    for t in ob["theorems"]:
        for a in t["axioms"]:
            if a not in AXIOM_WHITELIST and a.split(".")[-1] not in AXIOM_WHITELIST:
                bad_ax.append("%s depends on %s" % (t["name"], a))
    ok = b["ok"] and ob["ok"] and not forb and not bad_ax
    return {"ok": ok, "build_ok": b["ok"], "build_log": "" if b["ok"] else b["log"][-1500:], "forbidden": forb[:20],
            "theorems": ob["theorems"], "names": names, "undeclared_axioms": bad_ax, "oblig_log": ob.get("log", ""),
            "obligations": len(names), "discharged": len(names) if ok else 0}


def classify_hits(pid, hits):
    kf = known_findings()
    known_sigs = {f["signature"]: f for f in kf["findings"] if f["property"] == pid and f.get("status") == "known"}
    known, new = [], []
    for h in hits:
        if h["prop"] != pid:
            continue
        (known if h["sig"] in known_sigs else new).append(h)
    return known_sigs, known, new


def base_evidence(pid, tier, sd, ps):
    level = PROPS[pid]["level"]
    return {
        "property_id": pid, "tier": tier, "seed": sd, "level": level, "violations": 0,
        "coverage": {
            "obligations": ps["obligations"], "discharged": ps["discharged"],
            "theorems": ps["theorems"],
            "checker_cmd": "cd /verif/coq && coq_makefile -f _CoqProject -o Makefile && make -j16 && coqc -Q theories DbftV theories/Properties/%s.v  (Print Assumptions under every theorem)" % pid,
            "trusted_base": TRUSTED_BASE,
            "forbidden_token_hits": ps["forbidden"],
        },
        "assumptions": [],
    }


def finish(pid, ev, lines, violation, known_sigs, known_hits):
    for sig, f in sorted(known_sigs.items()):
        n = len([h for h in known_hits if h["sig"] == sig])
        lines.append("KNOWN-FINDING: property=%s %s [%s; reproduced %d times in this run]" % (pid, f["what"], sig, n))
    ev["violations"] = 1 if violation else 0
    ev["coverage"]["known_findings_reproduced"] = {s: len([h for h in known_hits if h["sig"] == s]) for s in known_sigs}
    return {"evidence": ev, "lines": lines, "violation": violation}


# ----------------------------------------------------------------------------------------------------------------
def decide_node(pid, tier, sd):
    ps = proof_status(pid)
    ev = base_evidence(pid, tier, sd, ps)
    lines = []
    res = node.run_histories(tier, sd)
    if "build_failed" in res:
        path = write_replay(pid, "build", {"property": pid, "what": "the %s does not build against /repo's current tree; the model-code tie cannot be checked" % res["build_failed"], "log": res["log"][-3000:]})
        ev["coverage"].update({"explanation": "harness/driver build failed", "evaluations": 0, "distinct_nontrivial": 0})
        lines.append("VIOLATION property=%s replay=%s no-failing-input-found" % (pid, path))
        return finish(pid, ev, lines, True, {}, [])
    agg = node.aggregate(res)
    known_sigs, known_hits, new_hits = classify_hits(pid, agg["mon"])
    rel = [d for j in res["jobs"] for d in j["dis"] if node.relevant(pid, d, j["name"])]
    sc = node.SCOPE.get(pid)
    scoped_jobs = [j for j in res["jobs"] if not sc or j["name"].startswith(sc)]
    ops = sum((j.get("summary") or {}).get("ops", 0) for j in scoped_jobs)
    sigs = {}
    for j in scoped_jobs:
        for k, v in j["sigs"].items():
            sigs[k] = sigs.get(k, 0) + v
    nontrivial = len([k for k in sigs if not k.endswith(":")])
    cov = ev["coverage"]
    cov.update({
        "evaluations": ops,
        "distinct_nontrivial": nontrivial,
        "rule": "one evaluation = one API call made on the real library and replayed through the extracted model from the "
                "implementation's own pre-state with the recorded callback answers; distinct = distinct (call kind / payload type, "
                "outcome, set of callback kinds made); non-trivial = at least one callback was made",
        "samples": agg["samples"][:10],
        "callbacks_compared": sum((j.get("summary") or {}).get("callbacks", 0) for j in scoped_jobs),
        "disagreements_total": agg["dis_total"],
        "disagreements_in_projection": len(rel),
        "projection": {"callbacks": node.PROJ[pid][0], "fingerprint_sections": node.PROJ[pid][1], "histories": list(sc) if sc else "all"},
        "monitor_checks_evaluated": agg["moncnt"].get(pid, 0),
        "monitor_hits_known": len(known_hits), "monitor_hits_new": len(new_hits),
        "input_distribution": {k: v for k, v in sorted(agg["stats"].items())},
        "jobs": len(res["jobs"]), "cache_reused": res.get("_cache_reused", False), "history_wall_s": round(res.get("wall_s", 0), 1),
        "explanation": PROPS[pid].get("explanation") or ("%s: theorems proved on the executable node model are listed under 'theorems'; the model is tied to the Go code by replaying every API call of the generated histories from the implementation's own pre-state; the property's monitor runs on the real library. See DESIGN.md section 6/%s for what is proved and what is only exercised." % (PROPS[pid]["title"], pid)),
    })
    violation = False
    if new_hits:
        h = new_hits[0]
        path = write_replay(pid, "mon-%d-%s-%d" % (sd, h["job"], h["run"]), {
            "property": pid, "kind": "monitor", "signature": h["sig"], "what": h["desc"], "history_cmd": "verifh " + h["cmd"],
            "run": h["run"], "op": h["op"], "all_new_hits": new_hits[:20],
            "how": "./check %s --replay <this file> regenerates the run on the real library and re-evaluates the monitor" % pid})
        lines.append("VIOLATION property=%s replay=%s" % (pid, path))
        violation = True
    elif not ps["ok"] or rel:
        what = []
        if not ps["ok"]:
            what.append({"broken": "proof obligations of theories/Properties/%s.v" % pid, "build_ok": ps["build_ok"], "log": ps["build_log"] or ps["oblig_log"],
                         "forbidden_tokens": ps["forbidden"], "undeclared_axioms": ps["undeclared_axioms"], "theorems": ps["names"]})
        if rel:
            what.append({"broken": "correspondence between the Coq node model and the implementation on this property's projection",
                         "first": rel[0], "count": len(rel), "more": rel[1:10]})
        path = write_replay(pid, "tie-%d" % sd, {"property": pid, "kind": "no-failing-input-found", "no_longer_checks": what,
                                                 "searched": "monitor of %s over %d API calls of %d histories (corpus, random system runs, probes, synchronous runs): no hit" % (pid, agg["ops"], len(res["jobs"]))})
        lines.append("VIOLATION property=%s replay=%s no-failing-input-found" % (pid, path))
        violation = True
    return finish(pid, ev, lines, violation, known_sigs, known_hits)


def replay(pid, path):
    with open(path) as f:
        r = json.load(f)
    if r.get("kind") != "monitor":
        print(json.dumps(r, indent=1)[:4000])
        print("this replay names a proof obligation / correspondence that no longer checks; there is no failing input to run")
        return 1
    h = build_harness()
    if not h["ok"]:
        print(h["log"])
        return 1
    cmd = r["history_cmd"].split()[1:]
    if cmd[0] == "gen":
        cmd = ["gen", cmd[1], str(r["run"]), str(r["run"] + 1)]
    elif cmd[0] == "shift":
        cmd = ["shift", cmd[1], str(r["run"]), str(r["run"] + 1)]
    elif cmd[0] == "sync":
        cmd = ["sync", cmd[1], cmd[2], str(r["run"]), str(r["run"] + 1)]
    p = sh([h["bin"]] + cmd, check=False, timeout=600)
    hits = [l for l in p.stdout.split("\n") if l.startswith("MON %s " % pid)]
    for l in hits:
        print(l)
    print("replayed `verifh %s` on the real library: %d monitor hits for %s" % (" ".join(cmd), len(hits), pid))
    return 1 if hits else 0


def decide(pid, tier, sd):
    fam = PROPS[pid]["family"]
    if fam == "node":
        return decide_node(pid, tier, sd)
    import aux  # noqa
    return aux.DECIDERS[fam](pid, tier, sd)
