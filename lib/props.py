"""Per-property decision procedures."""
import json
import os
import re
import subprocess
import sys
import time

from common import *  # noqa
import node  # noqa

TRUSTED_BASE = [
    "Coq 8.16.1 kernel (coqc, full .vo build through coq_makefile; no -vos/-vok; no native_compute; vm_compute used for witnesses and finite sweeps)",
    "no Axiom/Parameter/Conjecture/Admitted/admit in the development (grep over coq/ on every run); Print Assumptions under every property theorem",
    "hand-written Gallina models tied to /repo by the correspondence run of this check (harness in Go built from /repo with -tags verif; extracted OCaml driver)",
    "extraction: ExtrOcamlBasic only (bool, option, list, prod, unit, sumbool mapped to OCaml's), no Extract Constant / Extract Inductive of our own; coq/extraction/driver.ml parser+printer",
    "mock application contract (ideal signatures, injective canonical-encoding hashes, NewBlockFromContext a function of the context fields) - DESIGN.md section 7",
]

# level / technique per property; the MANIFEST is generated from this table (tools/mkmanifest.py)
TECH_NODE = "machine-checked proof in Coq 8.16.1 on a hand-written executable Gallina model + correspondence check (every API call of generated histories replayed through the extracted model from the implementation's own pre-state) + Go monitors on the real library for failing-input search"

PROPS = {
    "C01": dict(family="node", level="proof", title="Agreement",
        level_text="Proved for every N and every behaviour of at most F keys: agreement follows from quorum certificates and one-signature-per-height (Properties/C01.v, quorum intersection by pigeonhole). The node-level premises are proved only in part (counting clause of the certificate, commit gate, and - Properties/C03.v - at most one block signature per initialisation epoch); the unconditional statement is false of the code (known findings D1f/D1fa: forks replayed on the real library).",
        level_note="partial: composition theorem proved; premises 'every counted signature verifies' and 'one commit per height' are exercised by monitors on the real code, not proved"),
    "C02": dict(family="node", level="proof", title="Decision certificate",
        level_text="Proved for every reachable model state and script: the block (pre-block) is handed over only while M commits (pre-commits) of the current view are held, with all transactions, at most once per height; the block handed over is the node's header, whose timestamp, nonce and transaction list (in order) are those of the PrepareRequest of the current view held in the slot of the view's primary (height - view mod N), and whose index and previous hash are the context's values read from the application at the height's initialisation; under anti-MEV the same holds of the pre-block handed to ProcessPreBlock and the node's pre-header (Node/P02.v, invariant Inv2). Refuted with a model-level witness that is the real library's own history: that each counted signature verifies against that block (D1, D1p, D2, D2n).",
        level_note="partial: counting, at-most-once and block-is-the-proposal clauses proved on the whole model; signature validity of stored early commits is a known finding (refutation theorem with the library's own history as witness)"),
    "C03": dict(family="node", level="proof", title="Non-equivocation and commit lock",
        level_text="Proved over whole histories of the node model (Node/SignL.v, SignLReset.v, SignLRec.v, SignLApi.v): in every history of one initialisation epoch (a reachable state, Start or Reset, then any other API calls with any callback answers) in which the application reports one validator index in its key-pair callbacks, never tells the node to watch only, and the validator list has at most 2^16 entries: (1) the node asks for at most one block signature; (2) once it has signed, its own Commit slot holds exactly the commit built then, the node is in the view of that commit and its header is the signed block; (3) the commit lock: no further call of the epoch - payloads of every kind including recovery messages and a PrepareRequest arriving after the commit, timeouts, transactions, notifications - changes the view, asks for another signature or touches the own Commit slot; (4) every ChangeView the node broadcasts in the epoch precedes its signature request - after it has signed, no call makes it broadcast a ChangeView - and the table of view-change requests, its own request included, is never written again (SignLCV.v, Typed.v, SignLNoCV.v; the latter needs, and proves for every reachable state, that the PreCommit table holds PreCommits only and the Commit table Commits only, so that what the node re-broadcasts from its own slots is never a ChangeView); (5) from its signature request on, every Commit payload the node broadcasts - the first broadcast and every direct retransmission - is the commit built at that request (TypedCM.v, SignLCM.v); (6) the same lock after the PreCommit under anti-MEV (SignP.v, SignPReset.v, SignPRec.v, SignPApi.v, SignPNoCV.v - the construction with the roles of the two phases exchanged, ghost = the requests for pre-commit data): at most one PreCommit is built per epoch, the own PreCommit slot keeps it, from that request on no call changes the view or broadcasts a ChangeView, and every PreCommit it broadcasts is the one built then (TypedPM.v, SignPPM.v). The proof ties a ghost of the history (number of signature requests, the commit built at the first) to the state by the invariant Sg, uses the invariant Inv2 of P02.v for the PrepareRequest site, and shows initializeConsensus is entered only while nothing is signed. Also proved: for every reachable state a signature is requested only for the hash of the node's header, which is the proposal of its view, while the own Commit slot is empty, and (anti-MEV) pre-commit data only for the hash of the node's pre-header, the same proposal, while the own PreCommit slot is empty (P02.v); for every state with the own Commit/PreCommit slot filled a retransmitted Commit/PreCommit is the stored one and a timeout, a peer's ChangeView and a transaction broadcast no ChangeView (P03.v). Retransmission inside a recovery message (P09b.v, SignLRM.v): wherever it is called from, sendRecoveryMessage of a node whose own Commit slot is filled broadcasts a recovery message of the node's height and view that carries that Commit whole (every state); over all histories of an epoch, once the node has signed, every RecoveryRequest is answered with a recovery message of its height and of the signed commit's view that carries the commit built at the signature request - which is what the reference application's reconstruction needs to rebuild it identically (Properties/C19.v); and on sendRecoveryMessage itself, the one place where a recovery message is built whatever the occasion, from the state reached by any history of an epoch: after the signature the message carries the signed commit in its view, after the pre-commit was built (anti-MEV) the built pre-commit in its view (SignPRM.v). Not proved: the analogous statements for proposals, responses and pre-commits (one per view / at all), recovery messages built in the middle of a call that has already changed the state, view monotonicity of outgoing messages, the other recovery contents: decided by monitors on every node's outgoing history on the real library.",
        level_note="partial: one block signature per epoch, persistence of the signed commit, the commit lock (view never changes after the signature), 'no ChangeView is broadcast or recorded after the signature', 'every Commit broadcast from the signature on is the signed commit' the lock after the PreCommit (one PreCommit per epoch, kept, view never changes, no ChangeView broadcast) and 'the answer to a RecoveryRequest after the signature carries the signed commit, in its view' proved over all histories under a stable key-pair callback, no watch-only answer and N <= 2^16; the clauses about proposals/responses/pre-commits and outgoing-message monotonicity by exploration with monitors; model-code correspondence"),
    "C04": dict(family="node", level="proof", title="Quorum-gated progress",
        level_text="Proved for every reachable model state and script: a PrepareResponse is broadcast only with all transactions held and names the hash of the proposal in the primary's slot; Commit/PreCommit only with M current-view preparations including a request and all transactions. Proved over all started histories: in a view v > 0 the node holds M kept ChangeView requests for v or above. Not proved: 'the verification callback accepted the block' (exercised).",
        level_note="response/commit/pre-commit gates and the view-entry condition proved; the verification-accepted clause exercised"),
    "C05": dict(family="node", level="proof", title="One decision per height, quiescence, clean re-initialisation",
        level_text="Proved: ProcessBlock only while undecided (at most one hand-over per height) and only recovery messages are broadcast after the decision, for every reachable state; timeouts, transactions and non-recovery payloads after the decision change nothing (every state). Also proved (every state): a view-0 reset asks PrevHash, Height, Validators, TimePerBlock and leaves exactly those values with view 0, own index from the key-pair callback, all payload tables empty, nothing decided; an early payload for a later height is kept and changes nothing else. That the kept payloads are replayed and nothing else of earlier heights influences later decisions is exercised.",
        level_note="decision-once, quiescence, fresh re-initialisation and keeping of early payloads proved; replay of kept payloads exercised"),
    "C06": dict(family="quorum", level="proof", title="Quorum arithmetic and primary rotation",
        level_text="Proved for every validator count N >= 1: F = (N-1)/3, M = N-F, any two quorums share more than F validators, a quorum never needs a faulty one, the primary is (h-v) mod N, in range, and over N consecutive views or heights every validator is primary exactly once; the node model uses exactly these expressions. The rotation clause fails across the uint32 wrap of the height (refuted with a witness: known finding D14).",
        level_note="full proof for every N; tie: the real Context's N/F/M/GetPrimaryIndex compared with the extracted functions over a sweep of N, heights and views",
        technique="machine-checked proof in Coq 8.16.1 (Quorum.v) + correspondence check of the extracted functions against the Go Context"),
    "C07": dict(family="node", level="proof", title="Anti-MEV phase discipline",
        level_text="Proved for every reachable model state and script: Commit at an anti-MEV height only after own PreCommit, M current-view pre-commits and a successful pre-block callback; the pre-block callback only with M pre-commits and at most once; the final block is built only after it; PreCommit only when enabled; a received PreCommit is not acted upon when disabled.",
        level_note="proved on the whole model except 'signed only after' (the build gate is proved; signing follows building in makeCommit)"),
    "C08": dict(family="node", level="other", title="Fault-free synchronous runs decide in view 0",
        level_text="A statement about synchronous multi-node runs. Proved (every state): a payload that reaches a node before it has entered its height or view is kept and has no other effect. The property itself is decided by running the real library in a synchronous scheduler with arbitrary in-round orders, duplicates and early deliveries (sync mode c08) with monitors; model tied by correspondence.",
        level_note="exploration of synchronous schedules on the real code; node-level lemma (early payloads kept) proved"),
    "C09": dict(family="node", level="other", title="Recovery liveness",
        level_text="A liveness statement about multi-node runs. Proved (every state): a committed node answers every RecoveryRequest with a recovery message carrying its Commit and the preparations it holds. The property itself is decided by runs of the real library with silent nodes, partitions healed at arbitrary moments and restarts (sync modes c09s/c09p/c09r/c09x) with progress monitors; known finding D18.",
        level_note="exploration on the real code; node-level lemma (recovery requests answered) proved"),
    "C10": dict(family="node", level="proof", title="No lost wake-up",
        level_text="Proved over all histories of the model (Start, then any calls, any scripts under which the node is a non-watch-only validator): after every call an undecided node has the timer armed for exactly its height and view (timer as ghost of the history); a timeout for that epoch re-arms it; every arming names the current epoch. The non-negative-duration clause is false of the code at high views (known finding D10).",
        level_note="proved except the duration sign (known finding D10)"),
    "C11": dict(family="node", level="proof", title="Input hygiene",
        level_text="Proved: every inadmissible class named by the property and re-delivery of stored response/commit/pre-commit/proposal leave the state unchanged up to LastSeenMessage and make no callback but watch-only queries (every state); no sequence of well-formed API calls panics the model (sizing invariant over all histories). Re-delivered ChangeView: known finding D15.",
        level_note="proved on the model; Go panics at sites the model lacks are decided by the correspondence run"),
    "C12": dict(family="node", level="proof", title="A backup given every requested transaction answers",
        level_text="Proved for every state that meets the property's conditions (backup, proposal of the current view held, not view-changing, no response/commit yet, undecided) and every script under which the node is a non-watch-only validator: the OnTransaction call that completes the proposal's transaction set broadcasts a PrepareResponse, or a ChangeView when the completed block fails verification. The clause about a view change inside the same call (fix D3) is decided by the monitor and corpus scenario.",
        level_note="main clause proved on the model; nested-view-change clause exercised (monitor + corpus scenarios D3, 1012)"),
    "C13": dict(family="node", level="proof", title="Watch-only nodes are silent",
        level_text="Proved for every model state, API call and script: if the watch-only flag answers true whenever consulted (it is consulted only while the node is in the validator list) nothing is broadcast, signed or given pre-commit data.",
        level_note="proved on the whole model (the 'others progress as with a silent validator' clause follows from emitting nothing)"),
    "C14": dict(family="node", level="other", title="Clock-shift invariance",
        level_text="Node-level arithmetic facts proved (truncation commutes with the shift, elapsed times do not see it, copied readings shift; the proposal timestamp is the truncated reading of one Now callback); no run-level relational theorem. The property is decided by executing every generated history twice on the real library with clocks differing by constant offsets (and at different wall-clock times) and comparing payloads and timer durations; model tied by correspondence (the model reads time only through the Now callback).",
        level_note="differential execution on the real code under shifted clocks; only node-level equivariance lemmas are proved"),
    "C15": dict(family="node", level="proof", title="Honest proposals are well formed",
        level_text="Proved: every PrepareRequest broadcast in any reachable history carries the context's timestamp, nonce and transaction list for the node's epoch, with timestamp >= previous + increment (strictly greater without uint64 overflow); Fill takes exactly the pool's transactions, the truncated clock when larger and the nonce; the own header is built from the same context values.",
        level_note="proved on the model in three theorems; the link Fill->broadcast within one call is by the model's sendPrepareRequest"),
    "C16": dict(family="node", level="proof", title="Dynamic block time",
        level_text="Proved: the subscription callback is used only when the extension is configured (every reachable state); an idle backup at view 0 subscribes and re-arms instead of asking for a view change; a notification at a waiting primary produces the proposal in that call (every state meeting the conditions). Spacing of proposals and 'empty blocks only after the maximum interval' are statements about synchronous runs, decided by monitors on runs of the real library (sync mode c16, corpus scenario 1013).",
        level_note="subscription, no-idle-view-change and prompt-proposal clauses proved; spacing/maximum-interval clauses exercised"),
    "C17": dict(family="sim", level="proof", title="The bundled simulation keeps extending its chain",
        level_text="Proved on a model of the simulation's driver loop whose shape (which event kinds are followed by the height check and Reset) is regenerated from internal/simulation on every run: for every event sequence the chain grows as often as the library decides; the loop without the check stalls at the first block (the defect repaired by fix D6). The progress of the real binary is observed by running it.",
        level_note="theorem on a translated loop shape (tools/simshape.py) + running the shipped simulation binary; timing ('roughly the block interval') is observed, not proved",
        technique="machine-checked proof in Coq 8.16.1 on a loop model regenerated from the Go source by a small translator + execution of the real simulation"),
    "C18": dict(family="timer", level="proof", title="Bundled timer",
        level_text="Proved on a state-machine model of timer/timer.go over an abstract runtime, for every sequence of Reset/Extend/advance/read operations: never early, reports the latest epoch, no stale expiry after a later reset, zero duration fires at once. The Go runtime's scheduling (goroutine, channel, time.Timer) is modelled by two bracketing models, not verified; 'within scheduling tolerance' is measured on the real timer.",
        level_note="partial: logic proved on the model; runtime behaviour (real time.Timer, goroutine interleaving) is bracketed and exercised",
        technique="machine-checked proof in Coq 8.16.1 on a hand-written model + correspondence check of operation sequences against the real timer (two bracketing models)"),
    "C19": dict(family="ref", level="proof", title="Reference payload/block/crypto code",
        level_text="Proved: the Merkle root over lists of equal length changes with any leaf or order change for every collision-free pair function; the duplicate-last-leaf collision across lengths is refuted with a witness for every hash function (known finding D11); SHA-256 model on the FIPS vector. Proved on a model of the recovery-message compaction and reconstruction (Ref/Recovery.v: AddPayload, GetPrepareRequest, GetPrepareResponses, GetChangeViews, GetPreCommits, GetCommits, the seconds/nanoseconds and big-endian conversions, the 64-byte signature copy, and which fields EncodeBinary/DecodeBinary carry), for every packing sequence and every payload hash that is a function of the content: the proposal packed last is rebuilt as itself - hence with the original's hash - under a recovery payload of its height and view; every rebuilt response names that proposal, one per packed response in packing order; packed commits, pre-commits and ChangeViews are neither dropped nor duplicated nor reordered, a Commit/PreCommit of the recovery payload's height and view is rebuilt as itself and signer and signature survive under any header; across the codec the request, commits, pre-commits and ChangeViews survive, responses survive when no proposal is packed, and are ALL lost when one is (known finding D19, as a theorem about every such message). The gob byte format, SHA-256 collision freedom and ECDSA are not modelled: the remaining hash/codec/signature clauses are decided by differential execution of the Go reference code against the extracted models and by monitors (round trips, field sensitivity, malformed input).",
        level_note="partial: Merkle structure and the recovery-message compaction/reconstruction logic proved; byte-level codec, hash sensitivity and signature clauses are exercised on the real code (gob and the crypto primitives are outside what a Gallina model can carry here)",
        technique="machine-checked proof in Coq 8.16.1 (Merkle/SHA-256/recovery-message models) + correspondence check with internal/merkle, internal/crypto, internal/consensus (digests, roots and the rebuilt payloads of generated recovery messages compared with the extracted models)"),
    "C20": dict(family="tla", level="proof", title="The shipped TLA+ models keep their invariants",
        level_text="The shipped specifications - definitions and the modules' ASSUME - are translated to Gallina on every run (tla2coq from SANY's XML); InvTwoBlocksAccepted is proved inductive on the generated dbft and anti-MEV models for EVERY duplicate-free RM, RMFault, RMDead and MaxView that satisfy the translated ASSUME (any N, views unbounded); the dbftCV3 model violates it with the permitted fault set (witness checked by vm_compute: known finding D13). TypeOK and InvFaultNodesCount are proved on the same two models (the latter from the ASSUME's bound on RMFault \\cup RMDead). The three larger specs are decided for the shipped configurations (N=4) by TLC, cross-checked edge by edge against the generated Gallina Next.",
        level_note="all three invariants proved unboundedly on the translated dbft and anti-MEV models; the three larger specs by explicit-state model checking of the shipped configurations (not a proof); CV3 violates InvTwoBlocksAccepted (known finding D13)",
        technique="translator (TLA+ -> Gallina) + machine-checked proof in Coq 8.16.1 on the generated models; TLC for the finite configurations"),
}
for _k, _v in PROPS.items():
    if _v["family"] == "node":
        _v.setdefault("technique", TECH_NODE)


# refutation witnesses kept as Coq files: (file, harness argv, run, node, name)
WITNESSES = {
    "C02": [("D1", ["scen"], 1000, 2, "d1")],
    "C01": [("D1", ["scen"], 1000, 2, "d1")],
    "C03": [("S1", ["scen"], 1010, 0, "s1"), ("V1", ["scen"], 1019, 0, "v1")],
}


def witness_status(w, harness_bin):
    """re-derives the witness history from the current /repo and compares it with the committed Coq file"""
    name, argv, run, node_id, ident = w
    vfile = os.path.join(COQ, "theories", "Witness", name + ".v")
    try:
        hist = subprocess.run([harness_bin] + argv, stdout=subprocess.PIPE, stderr=subprocess.DEVNULL, timeout=600).stdout
        tmp = os.path.join(WORK, "wit-%s-%d.hist" % (name, os.getpid()))
        with open(tmp, "wb") as f:
            f.write(hist)
        gen = subprocess.run([sys.executable, os.path.join(VERIF, "tools", "hist2coq.py"), tmp, str(run), str(node_id), ident],
                             stdout=subprocess.PIPE, stderr=subprocess.PIPE, text=True, timeout=120)
        os.remove(tmp)
        committed = open(vfile).read()

        def canon(text):
            # the library draws the proposal's nonce from crypto/rand: histories are compared up to the nonce values
            order = []
            for m in re.finditer(r"BPrepareRequest \(?-?\d+\)? (\d+)", text):
                if m.group(1) not in order:
                    order.append(m.group(1))
            for k, v in enumerate(order):
                text = re.sub(r"\b%s\b" % v, "NONCE%d" % k, text)
            return text
        same = gen.returncode == 0 and canon(gen.stdout.strip()) in canon(committed)
        return {"witness": "theories/Witness/%s.v" % name, "source": "verifh %s, run %d, node %d" % (" ".join(argv), run, node_id),
                "matches_current_implementation": bool(same),
                "meaning": "the Coq witness (vm_compute on the model) is exactly the history the real library produces today (up to the random nonce of the proposal)" if same
                           else "the library no longer produces the recorded history: the model-level refutation stands, the code-level finding must be re-examined"}
    except Exception as e:  # noqa
        return {"witness": name, "error": str(e)[:300]}


def proof_status(pid):
    """build the development, check the forbidden-token grep and the property file's obligations"""
    b = build_coq()
    forb = forbidden_tokens()
    has_file = os.path.exists(os.path.join(COQ, "theories", "Properties", pid + ".v"))
    if not has_file:  # no property theorems yet: nothing to discharge (the level cannot be 'proof' then)
        ob = {"ok": b["ok"], "theorems": [], "log": "", "stated": []}
    else:
        ob = property_obligations(pid) if b["ok"] else {"ok": False, "theorems": [], "log": b["log"][-1500:], "stated": []}
    names = [t["name"] for t in ob["theorems"]]
    bad_ax = []
    for t in ob["theorems"]:
        for a in t["axioms"]:
            if a not in AXIOM_WHITELIST and a.split(".")[-1] not in AXIOM_WHITELIST:
                bad_ax.append("%s depends on %s" % (t["name"], a))
    ok = b["ok"] and ob["ok"] and not forb and not bad_ax
    return {"ok": ok, "build_ok": b["ok"], "build_log": "" if b["ok"] else b["log"][-1500:], "forbidden": forb[:20],
            "theorems": ob["theorems"], "names": names, "undeclared_axioms": bad_ax, "oblig_log": ob.get("log", ""),
            "obligations": len(names), "discharged": len(names) if ok else 0}


def classify_hits(pid, hits):
    kf = known_findings()
    known_sigs = {f["signature"]: f for f in kf["findings"] if f["property"] == pid and f.get("status") == "known"}
    known, new = [], []
    for h in hits:
        if h["prop"] != pid:
            continue
        (known if h["sig"] in known_sigs else new).append(h)
    return known_sigs, known, new


def base_evidence(pid, tier, sd, ps):
    level = PROPS[pid]["level"]
    return {
        "property_id": pid, "tier": tier, "seed": sd, "level": level, "violations": 0,
        "coverage": {
            "obligations": ps["obligations"], "discharged": ps["discharged"],
            "theorems": ps["theorems"],
            "checker_cmd": "cd /verif/coq && coq_makefile -f _CoqProject -o Makefile && make -j16 && coqc -Q theories DbftV theories/Properties/%s.v  (Print Assumptions under every theorem)" % pid,
            "trusted_base": TRUSTED_BASE,
            "forbidden_token_hits": ps["forbidden"],
        },
        "assumptions": [],
    }


def finish(pid, ev, lines, violation, known_sigs, known_hits):
    for sig, f in sorted(known_sigs.items()):
        n = len([h for h in known_hits if h["sig"] == sig])
        lines.append("KNOWN-FINDING: property=%s %s [%s; reproduced %d times in this run]" % (pid, f["what"], sig, n))
    ev["violations"] = 1 if violation else 0
    ev["coverage"]["known_findings_reproduced"] = {s: len([h for h in known_hits if h["sig"] == s]) for s in known_sigs}
    return {"evidence": ev, "lines": lines, "violation": violation}


# ----------------------------------------------------------------------------------------------------------------
def decide_node(pid, tier, sd):
    ps = proof_status(pid)
    ev = base_evidence(pid, tier, sd, ps)
    lines = []
    res = node.run_histories(tier, sd)
    if "build_failed" in res:
        path = write_replay(pid, "build", {"property": pid, "what": "the %s does not build against /repo's current tree; the model-code tie cannot be checked" % res["build_failed"], "log": res["log"][-3000:]})
        ev["coverage"].update({"explanation": "harness/driver build failed", "evaluations": 0, "distinct_nontrivial": 0})
        lines.append("VIOLATION property=%s replay=%s no-failing-input-found" % (pid, path))
        return finish(pid, ev, lines, True, {}, [])
    agg = node.aggregate(res)
    known_sigs, known_hits, new_hits = classify_hits(pid, agg["mon"])
    rel = [d for j in res["jobs"] for d in j["dis"] if node.relevant(pid, d, j["name"])]
    sc = node.SCOPE.get(pid)
    scoped_jobs = [j for j in res["jobs"] if not sc or j["name"].startswith(sc)]
    ops = sum((j.get("summary") or {}).get("ops", 0) for j in scoped_jobs)
    sigs = {}
    for j in scoped_jobs:
        for k, v in j["sigs"].items():
            sigs[k] = sigs.get(k, 0) + v
    nontrivial = len([k for k in sigs if not k.endswith(":")])
    cov = ev["coverage"]
    cov.update({
        "evaluations": ops,
        "distinct_nontrivial": nontrivial,
        "rule": "one evaluation = one API call made on the real library and replayed through the extracted model from the "
                "implementation's own pre-state with the recorded callback answers; distinct = distinct (call kind / payload type, "
                "outcome, set of callback kinds made); non-trivial = at least one callback was made",
        "samples": agg["samples"][:10],
        "callbacks_compared": sum((j.get("summary") or {}).get("callbacks", 0) for j in scoped_jobs),
        "disagreements_total": agg["dis_total"],
        "disagreements_in_projection": len(rel),
        "projection": {"callbacks": node.PROJ[pid][0], "fingerprint_sections": node.PROJ[pid][1], "histories": list(sc) if sc else "all"},
        "monitor_checks_evaluated": agg["moncnt"].get(pid, 0),
        "monitor_hits_known": len(known_hits), "monitor_hits_new": len(new_hits),
        "input_distribution": {k: v for k, v in sorted(agg["stats"].items())},
        "jobs": len(res["jobs"]), "cache_reused": res.get("_cache_reused", False), "history_wall_s": round(res.get("wall_s", 0), 1),
        "explanation": PROPS[pid].get("explanation") or ("%s: theorems proved on the executable node model are listed under 'theorems'; the model is tied to the Go code by replaying every API call of the generated histories from the implementation's own pre-state; the property's monitor runs on the real library. See DESIGN.md section 6/%s for what is proved and what is only exercised." % (PROPS[pid]["title"], pid)),
    })
    if pid in WITNESSES:
        cov["model_witnesses"] = [witness_status(w, res["harness_bin"]) for w in WITNESSES[pid]]
    violation = False
    if new_hits:
        h = new_hits[0]
        path = write_replay(pid, "mon-%d-%s-%d" % (sd, h["job"], h["run"]), {
            "property": pid, "kind": "monitor", "signature": h["sig"], "what": h["desc"], "history_cmd": "verifh " + h["cmd"],
            "run": h["run"], "op": h["op"], "all_new_hits": new_hits[:20],
            "how": "./check %s --replay <this file> regenerates the run on the real library and re-evaluates the monitor" % pid})
        lines.append("VIOLATION property=%s replay=%s" % (pid, path))
        violation = True
    elif pid == "C11" and any(d["kind"] == "PANIC-IMPL-ONLY" for d in rel):
        # the library panicked on a well-formed call where the model does not: the history up to that call is the failing input
        pn = [d for d in rel if d["kind"] == "PANIC-IMPL-ONLY"]
        h = pn[0]
        path = write_replay(pid, "panic-%d-%s-%d" % (sd, h["job"], h["run"]), {
            "property": pid, "kind": "panic", "what": "the library panics in the API call [%s] of node %d (run %d); the model does not" % (h["op"], h["node"], h["run"]),
            "history_cmd": "verifh " + h["cmd"], "run": h["run"], "op": h["op"], "all": pn[:20],
            "how": "./check %s --replay <this file> regenerates the run on the real library and shows the PANIC lines" % pid})
        lines.append("VIOLATION property=%s replay=%s" % (pid, path))
        violation = True
    elif not ps["ok"] or rel:
        what = []
        if not ps["ok"]:
            what.append({"broken": "proof obligations of theories/Properties/%s.v" % pid, "build_ok": ps["build_ok"], "log": ps["build_log"] or ps["oblig_log"],
                         "forbidden_tokens": ps["forbidden"], "undeclared_axioms": ps["undeclared_axioms"], "theorems": ps["names"]})
        if rel:
            what.append({"broken": "correspondence between the Coq node model and the implementation on this property's projection",
                         "first": rel[0], "count": len(rel), "more": rel[1:10]})
        path = write_replay(pid, "tie-%d" % sd, {"property": pid, "kind": "no-failing-input-found", "no_longer_checks": what,
                                                 "searched": "monitor of %s over %d API calls of %d histories (corpus, random system runs, probes, synchronous runs): no hit" % (pid, agg["ops"], len(res["jobs"]))})
        lines.append("VIOLATION property=%s replay=%s no-failing-input-found" % (pid, path))
        violation = True
    return finish(pid, ev, lines, violation, known_sigs, known_hits)


def node_side(pid, tier, sd):
    """for a property with its own decider: the monitors of that property on the node histories and its (narrow) part of the tie;
    returns (violation line or None, coverage dict)"""
    res = node.run_histories(tier, sd)
    if "build_failed" in res:
        path = write_replay(pid, "build", {"property": pid, "what": "the %s does not build against /repo's current tree" % res["build_failed"], "log": res["log"][-3000:]})
        return "VIOLATION property=%s replay=%s no-failing-input-found" % (pid, path), {"node_histories": "build failed"}
    agg = node.aggregate(res)
    _, known_hits, new_hits = classify_hits(pid, agg["mon"])
    rel = [d for j in res["jobs"] for d in j["dis"] if node.relevant(pid, d, j["name"])]
    cov = {"node_histories": {"api_calls": agg["ops"], "monitor_checks_evaluated": agg["moncnt"].get(pid, 0), "monitor_hits_new": len(new_hits),
                              "disagreements_in_projection": len(rel), "cache_reused": res.get("_cache_reused", False)}}
    if new_hits:
        h = new_hits[0]
        path = write_replay(pid, "mon-%d-%s-%d" % (sd, h["job"], h["run"]), {
            "property": pid, "kind": "monitor", "signature": h["sig"], "what": h["desc"], "history_cmd": "verifh " + h["cmd"],
            "run": h["run"], "op": h["op"], "all_new_hits": new_hits[:20]})
        return "VIOLATION property=%s replay=%s" % (pid, path), cov
    if rel:
        path = write_replay(pid, "tie-%d" % sd, {"property": pid, "kind": "no-failing-input-found",
                                                 "no_longer_checks": [{"broken": "correspondence between the Coq node model and the implementation on this property's projection", "first": rel[0], "count": len(rel), "more": rel[1:10]}],
                                                 "searched": "monitor of %s over %d API calls of the node histories: no hit" % (pid, agg["ops"])})
        return "VIOLATION property=%s replay=%s no-failing-input-found" % (pid, path), cov
    return None, cov


def replay(pid, path):
    with open(path) as f:
        r = json.load(f)
    if r.get("kind") == "panic":
        h = build_harness()
        if not h["ok"]:
            print(h["log"])
            return 1
        cmd = r["history_cmd"].split()[1:]
        if cmd[0] == "gen":
            cmd = ["gen", cmd[1], str(r["run"]), str(r["run"] + 1)]
        elif cmd[0] == "sync":
            cmd = ["sync", cmd[1], cmd[2], str(r["run"]), str(r["run"] + 1)]
        p = sh([h["bin"]] + cmd, check=False, timeout=600)
        out, run, op, hits = p.stdout.split("\n"), -1, "", 0
        for l in out:
            if l.startswith("RUN "):
                run = int(l.split()[1])
            elif l.startswith("OP "):
                op = l
            elif l.startswith("PANIC") and run == r["run"]:
                hits += 1
                print("run %d, %s: %s" % (run, op, l))
        print("replayed `verifh %s` on the real library: %d panics in run %d" % (" ".join(cmd), hits, r["run"]))
        return 1 if hits else 0
    if r.get("kind") != "monitor":
        print(json.dumps(r, indent=1)[:4000])
        print("this replay names a proof obligation / correspondence that no longer checks; there is no failing input to run")
        return 1
    h = build_harness()
    if not h["ok"]:
        print(h["log"])
        return 1
    cmd = r["history_cmd"].split()[1:]
    if cmd[0] == "gen":
        cmd = ["gen", cmd[1], str(r["run"]), str(r["run"] + 1)]
    elif cmd[0] == "shift":
        cmd = ["shift", cmd[1], str(r["run"]), str(r["run"] + 1)]
    elif cmd[0] == "sync":
        cmd = ["sync", cmd[1], cmd[2], str(r["run"]), str(r["run"] + 1)]
    p = sh([h["bin"]] + cmd, check=False, timeout=600)
    hits = [l for l in p.stdout.split("\n") if l.startswith("MON %s " % pid)]
    for l in hits:
        print(l)
    print("replayed `verifh %s` on the real library: %d monitor hits for %s" % (" ".join(cmd), len(hits), pid))
    return 1 if hits else 0


def decide(pid, tier, sd):
    fam = PROPS[pid]["family"]
    if fam == "node":
        return decide_node(pid, tier, sd)
    import aux  # noqa
    return aux.DECIDERS[fam](pid, tier, sd)
