"""Shared machinery of /verif/check: build steps, caching by tree hash, evidence, known findings."""
import fcntl
import hashlib
import json
import os
import re
import subprocess
import sys
import time

VERIF = os.path.dirname(os.path.dirname(os.path.abspath(__file__)))
REPO = os.environ.get("VERIF_REPO", "/repo")
WORK = os.path.join(VERIF, ".work")
COQ = os.path.join(VERIF, "coq")
GOENV = dict(os.environ, GOFLAGS="-mod=mod", GOPROXY="off", GOSUMDB="off", GOTOOLCHAIN="local",
             GOCACHE=os.path.join(WORK, "gocache"))
GO = "go1.26"
NPROC = min(16, os.cpu_count() or 4)


def sh(cmd, cwd=None, env=None, timeout=1800, check=True, capture=True):
    p = subprocess.run(cmd, cwd=cwd, env=env, shell=isinstance(cmd, str), timeout=timeout,
                       stdout=subprocess.PIPE if capture else None, stderr=subprocess.STDOUT if capture else None,
                       text=True, errors="replace")
    if check and p.returncode != 0:
        raise RuntimeError("command failed (%d): %s\n%s" % (p.returncode, cmd, (p.stdout or "")[-4000:]))
    return p


def file_hash(paths):
    h = hashlib.sha1()
    for p in sorted(paths):
        h.update(p.encode())
        try:
            with open(p, "rb") as f:
                h.update(f.read())
        except OSError:
            h.update(b"<missing>")
    return h.hexdigest()[:16]


def tree_files(root, exts, skip=(".git", ".work", "evidence", "seeded")):
    out = []
    for d, dirs, files in os.walk(root):
        dirs[:] = [x for x in dirs if x not in skip]
        for f in files:
            if f.endswith(exts):
                out.append(os.path.join(d, f))
    return out


def repo_hash():
    return file_hash(tree_files(REPO, (".go", ".mod", ".sum", ".tla", ".launch")))


def verif_hash():
    return file_hash(tree_files(os.path.join(VERIF, "harness"), (".go", ".mod")) +
                     tree_files(COQ, (".v", ".ml", "_CoqProject")) +
                     tree_files(os.path.join(VERIF, "lib"), (".py",)) +
                     tree_files(os.path.join(VERIF, "tla2coq"), (".py", ".v", ".cfg")) +
                     [os.path.join(VERIF, "known_findings.json")])


class Lock:
    """inter-process lock so that concurrently started checks share one build / one generated history set"""

    def __init__(self, name):
        os.makedirs(WORK, exist_ok=True)
        self.path = os.path.join(WORK, name + ".lock")

    def __enter__(self):
        self.f = open(self.path, "w")
        fcntl.flock(self.f, fcntl.LOCK_EX)
        return self

    def __exit__(self, *a):
        fcntl.flock(self.f, fcntl.LOCK_UN)
        self.f.close()


def prune(directory, prefix, keep):
    """disk hygiene: of the files directory/prefix* keep the `keep` most recently used ones (one binary and one cache entry
    is made per state of /repo and /verif; without this they pile up)"""
    try:
        fs = [os.path.join(directory, f) for f in os.listdir(directory) if f.startswith(prefix) and ".tmp" not in f]
        fs.sort(key=lambda f: os.path.getmtime(f), reverse=True)
        for f in fs[keep:]:
            if time.time() - os.path.getmtime(f) > 3600:   # never something a concurrent check may have just made
                os.remove(f)
    except OSError:
        pass


def cached(key, fn):
    """run fn() once per key; the JSON result is stored under .work/cache"""
    d = os.path.join(WORK, "cache")
    os.makedirs(d, exist_ok=True)
    prune(d, key.split("-")[0] + "-", 24)
    path = os.path.join(d, key + ".json")
    with Lock("cache-" + key):
        if os.path.exists(path):
            with open(path) as f:
                r = json.load(f)
            r["_cache_reused"] = True
            return r
        r = fn()
        tmp = path + ".tmp%d" % os.getpid()
        with open(tmp, "w") as f:
            json.dump(r, f)
        os.replace(tmp, path)
        r["_cache_reused"] = False
        return r


# ---------------------------------------------------------------------------------------------------------------
# builds

def build_harness():
    """go build -tags verif of the harness against /repo's current working tree"""
    key = "harness-" + file_hash(tree_files(REPO, (".go", ".mod", ".sum")) + tree_files(os.path.join(VERIF, "harness"), (".go", ".mod")))
    out = os.path.join(WORK, "bin", key)

    def go():
        os.makedirs(os.path.dirname(out), exist_ok=True)
        hd = os.path.join(VERIF, "harness")
        sh("cp %s/go.sum %s/go.sum" % (REPO, hd))
        t = time.time()
        p = sh([GO, "build", "-tags", "verif", "-o", out, "."], cwd=hd, env=GOENV, check=False)
        return {"ok": p.returncode == 0, "log": p.stdout[-3000:], "bin": out, "wall_s": time.time() - t}
    r = cached(key, go)
    if r["ok"] and not os.path.exists(out):  # cache entry without binary (cleaned): rebuild
        os.remove(os.path.join(WORK, "cache", key + ".json"))
        r = cached(key, go)
    if r["ok"]:
        os.utime(out, None)
    prune(os.path.join(WORK, "bin"), "harness-", 6)
    return r


def coq_sources():
    return tree_files(COQ, (".v",)) + [os.path.join(COQ, "_CoqProject")]


def tla_gen():
    """regenerate coq/theories/Tla/gen/*.v from /repo's .tla files (translator tla2coq); cached by content hash"""
    files = tree_files(os.path.join(REPO, "formal-models"), (".tla",)) + tree_files(os.path.join(VERIF, "tla2coq"), (".py", ".sh", ".out"))
    key = "tlagen-" + file_hash(files)
    gen = os.path.join(COQ, "theories", "Tla", "gen")

    stamp = os.path.join(gen, ".stamp")
    with Lock("tla-gen"):
        cur = open(stamp).read().strip() if os.path.exists(stamp) else ""
        want = ["Spec_dbft.v", "Spec_antiMEV.v", "Spec_CV3.v", "Spec_centralizedCV.v", "Spec_multipool.v", "Witness_CV3.v"]
        if cur == key and all(os.path.exists(os.path.join(gen, w)) for w in want):
            return {"ok": True, "log": "", "reused": True}
        p = sh("timeout 900 %s/tla2coq/gen.sh" % VERIF, check=False)
        ok = p.returncode == 0
        if ok:
            with open(stamp, "w") as f:
                f.write(key)
        elif os.path.exists(stamp):
            os.remove(stamp)
        return {"ok": ok, "log": p.stdout[-3000:], "reused": False}


def sim_gen():
    """regenerate coq/theories/Sim/gen/DriverShape.v from internal/simulation/main.go (rewritten only when its text changes)"""
    out = os.path.join(COQ, "theories", "Sim", "gen", "DriverShape.v")
    os.makedirs(os.path.dirname(out), exist_ok=True)
    p = sh("python3 %s/tools/simshape.py %s/internal/simulation/main.go" % (VERIF, REPO), check=False)
    if p.returncode != 0:
        return {"ok": False, "log": p.stdout[-1000:]}
    with Lock("sim-gen"):
        cur = open(out).read() if os.path.exists(out) else ""
        if cur != p.stdout:
            with open(out, "w") as f:
                f.write(p.stdout)
    return {"ok": True, "log": ""}


def build_coq():
    """full .vo build of the Coq development (make is incremental); returns ok + log"""
    g = tla_gen()
    sg = sim_gen()
    if not sg["ok"]:
        return {"ok": False, "log": "simshape generation failed:\n" + sg["log"], "wall_s": 0, "gen_failed": True}
    with Lock("coq-build"):
        t = time.time()
        if not g["ok"]:
            return {"ok": False, "log": "tla2coq generation failed:\n" + g["log"], "wall_s": 0, "gen_failed": True}
        if not os.path.exists(os.path.join(COQ, "Makefile")) or \
                os.path.getmtime(os.path.join(COQ, "Makefile")) < os.path.getmtime(os.path.join(COQ, "_CoqProject")):
            sh("coq_makefile -f _CoqProject -o Makefile", cwd=COQ)
        p = sh("timeout 3000 make -j%d" % NPROC, cwd=COQ, check=False, timeout=3100)
        return {"ok": p.returncode == 0, "log": p.stdout[-6000:], "wall_s": time.time() - t}


def build_driver():
    """extract the node model and build the OCaml replay driver"""
    with Lock("coq-build"):
        ext = os.path.join(COQ, "extraction")
        key = "driver-" + file_hash([os.path.join(COQ, "theories", d, f) for d, f in
                                      (("Base", "Base.v"), ("Node", "Types.v"), ("Node", "Model.v"))] +
                                     [os.path.join(ext, "Extract.v"), os.path.join(ext, "driver.ml")])
        out = os.path.join(WORK, "bin", key)
        if os.path.exists(out):
            return {"ok": True, "bin": out, "log": ""}
        os.makedirs(os.path.dirname(out), exist_ok=True)
        p = sh("coqc -Q theories DbftV extraction/Extract.v > /dev/null && mv model.ml model.mli extraction/ && "
               "cd extraction && ocamlfind ocamlopt -O3 -w -a model.mli model.ml driver.ml -o %s" % out,
               cwd=COQ, check=False)
        return {"ok": p.returncode == 0 and os.path.exists(out), "bin": out, "log": p.stdout[-3000:]}


FORBIDDEN = re.compile(r"\b(Admitted|admit|Axiom|Axioms|Parameter|Parameters|Conjecture|Admit Obligations|bypass_check)\b|Unset Guard|Unset Positivity|Unset Universe|type-in-type|impredicative-set")


def strip_comments(src):
    out, depth, i = [], 0, 0
    while i < len(src):
        if src.startswith("(*", i):
            depth += 1
            i += 2
        elif src.startswith("*)", i) and depth > 0:
            depth -= 1
            i += 2
        else:
            if depth == 0:
                out.append(src[i])
            i += 1
    return "".join(out)


def forbidden_tokens():
    """Admitted / admit / Axiom / Parameter ... anywhere in the development outside comments"""
    hits = []
    for f in tree_files(COQ, (".v",)) + [os.path.join(COQ, "_CoqProject")]:
        with open(f, errors="replace") as fh:
            src = strip_comments(fh.read())
        for n, line in enumerate(src.split("\n"), 1):
            # "Variable"/"Hypothesis" are allowed only inside sections; checked by Print Assumptions anyway
            m = FORBIDDEN.search(line)
            if m:
                hits.append("%s:%d: %s" % (os.path.relpath(f, VERIF), n, line.strip()[:120]))
    return hits


def property_obligations(pid):
    """compile Properties/<pid>.v again on its own to capture what Print Assumptions reports under each theorem"""
    src = os.path.join(COQ, "theories", "Properties", pid + ".v")
    if not os.path.exists(src):
        return {"ok": False, "theorems": [], "log": "no property file"}
    with open(src) as f:
        text = strip_comments(f.read())
    names = re.findall(r"Print Assumptions\s+([A-Za-z0-9_'.]+)\s*\.", text)
    stated = re.findall(r"\b(?:Theorem|Lemma|Example|Corollary)\s+([A-Za-z0-9_']+)", text)
    vo = src[:-2] + ".vo"
    fresh = os.path.exists(vo) and all(os.path.getmtime(vo) >= os.path.getmtime(s) for s in [src])
    key = "assum-%s-%s" % (pid, file_hash(coq_sources()))

    def go():
        od = os.path.join(WORK, "assum-%d" % os.getpid())
        os.makedirs(od, exist_ok=True)
        p = sh("timeout 900 coqc -Q theories DbftV theories/Properties/%s.v -o %s/%s.vo" % (pid, od, pid), cwd=COQ, check=False)
        sh("rm -rf %s" % od, check=False)
        return {"rc": p.returncode, "out": p.stdout}
    with Lock("coq-build"):
        r = cached(key, go)
    out = r["out"]
    chunks = re.split(r"(?=Closed under the global context|Axioms:)", out)
    reports = [c.strip() for c in chunks if c.startswith("Closed under") or c.startswith("Axioms:")]
    theorems = []
    for i, n in enumerate(names):
        rep = reports[i] if i < len(reports) else "<no report>"
        closed = rep.startswith("Closed under the global context")
        axioms = [] if closed else re.findall(r"^([A-Za-z0-9_.']+)\s*:", rep, re.M)
        theorems.append({"name": n, "closed": closed, "axioms": axioms})
    ok = r["rc"] == 0 and fresh and len(reports) == len(names) and len(names) > 0
    return {"ok": ok, "theorems": theorems, "stated": stated, "log": out[-2000:] if r["rc"] != 0 else "", "vo_fresh": fresh}


AXIOM_WHITELIST = {
    "Coq.Logic.FunctionalExtensionality.functional_extensionality_dep",
    "FunctionalExtensionality.functional_extensionality_dep",
    "functional_extensionality_dep",
    "Coq.Logic.Eqdep.Eq_rect_eq.eq_rect_eq", "Eqdep.Eq_rect_eq.eq_rect_eq", "eq_rect_eq",
    "Coq.Logic.JMeq.JMeq_eq", "JMeq_eq",
    "Coq.Logic.Classical_Prop.classic", "classic",
    "Coq.Logic.ProofIrrelevance.proof_irrelevance", "proof_irrelevance",
}

# ---------------------------------------------------------------------------------------------------------------
# known findings, evidence, verdict

def known_findings():
    with open(os.path.join(VERIF, "known_findings.json")) as f:
        return json.load(f)


def write_evidence(pid, ev):
    d = os.path.join(VERIF, "evidence")
    os.makedirs(d, exist_ok=True)
    path = os.path.join(d, pid + ".json")
    tmp = path + ".tmp%d" % os.getpid()
    with open(tmp, "w") as f:
        json.dump(ev, f, indent=1, sort_keys=True)
    os.replace(tmp, path)


def write_replay(pid, name, obj):
    d = os.path.join(WORK, "replays")
    os.makedirs(d, exist_ok=True)
    path = os.path.join(d, "%s-%s.json" % (pid, name))
    with open(path, "w") as f:
        json.dump(obj, f, indent=1)
    return path


def seed():
    try:
        return int(os.environ.get("VERIF_SEED", "1"))
    except ValueError:
        return 1
