"""Node family (C01-C05, C07-C16): histories from the real library, replay through the extracted model,
monitors, per-property projection of disagreements."""
import concurrent.futures
import os
import re
import time

from common import *  # noqa

# ---- what each property's projection contains: callback kinds and fingerprint sections -------------------------
# fingerprint sections: 0 core(BlockIndex ViewNumber MyIndex PrimaryIndex PrevHash Timestamp Nonce) 1 validators
# 2 TransactionHashes 3 MissingTransactions 4 Transactions 5 Preparation 6 PreCommit 7 Commit 8 ChangeView
# 9 LastChangeView 10 LastSeenMessage 11 flags+timing 12 prepareSentTime/rtt 13 presence flags,recovering,key
# 14 cache 15 header/block 16 pre-header/pre-block 17 rtt samples
ALLK = "NOW HEIGHT PREV VALS KEYPAIR WO TPB MAXTPB GETVER GETTX VBLOCK VPREBLOCK VPREQ VPRESP VCOMMIT VPRECOMMIT " \
       "NEWBLOCK NEWPREBLOCK NONCE RECV BCAST TRESET TEXTEND THEIGHT TVIEW PBLOCK PPREBLOCK REQTX SUB STOP SIGN SETDATA FATAL".split()
PROJ = {
    "C01": (["PBLOCK", "SIGN"], [7, 15]),
    "C02": (["PBLOCK", "PPREBLOCK", "NEWBLOCK", "NEWPREBLOCK"], [6, 7, 15, 16]),
    "C03": (["BCAST", "SIGN", "SETDATA"], [0, 5, 6, 7, 8]),
    "C04": (["BCAST", "VBLOCK", "VPREBLOCK", "RECV"], [0, 5, 8, 9]),
    "C05": (["PBLOCK", "BCAST", "HEIGHT", "PREV", "VALS", "KEYPAIR", "TPB", "MAXTPB", "RECV"], [0, 1, 11, 14]),
    "C07": (["BCAST", "PPREBLOCK", "PBLOCK", "NEWBLOCK", "NEWPREBLOCK", "SIGN", "SETDATA", "VPREBLOCK"], [6, 11, 16]),
    "C08": (["BCAST", "TRESET", "TEXTEND", "PBLOCK", "RECV"], [0, 14]),
    "C09": (["BCAST", "TRESET", "RECV", "PBLOCK"], [0, 9, 10]),
    "C10": (["TRESET", "TEXTEND", "THEIGHT", "TVIEW"], [0, 11]),
    "C11": (ALLK, list(range(18))),
    "C12": (["REQTX", "GETTX", "BCAST"], [2, 3, 4, 5]),
    "C13": (["BCAST", "SIGN", "SETDATA", "WO"], []),
    "C14": (["NOW", "TRESET", "TEXTEND"], [11, 12, 17]),
    "C15": (["GETVER", "NONCE", "NOW", "BCAST"], [2, 15]),
    "C16": (["SUB", "GETVER", "TRESET", "THEIGHT", "TVIEW", "BCAST"], [11]),
    # properties with their own deciders that also read the node histories (monitors; a narrow part of the tie)
    "C06": (["VALS"], [1]),
    "C17": ([], []),
}
# histories on which a property's correspondence is evaluated (job name prefixes); None = all
SCOPE = {"C08": ("sync-c08", "sync-c16"), "C09": ("sync-c09",), "C16": ("sync-c16", "gen", "scen"), "C14": ("shift", "gen", "scen", "sync")}


VIEWCHANGE_OPS = ("M 0 ", "M 64 ", "M 65 ", "T ")  # ChangeView, RecoveryRequest, RecoveryMessage, timeouts


def relevant(pid, dis, job):
    sc = SCOPE.get(pid)
    if sc and not job.startswith(sc):
        # C09 rests on the view-change and recovery machinery: its handling of these inputs belongs to the tie on every history
        if pid == "C09" and dis.get("kind") in ("MISMATCH", "DIFF") and dis.get("op", "").startswith(VIEWCHANGE_OPS):
            if dis["kind"] == "MISMATCH" or any(s in (0, 8, 9) for s in dis.get("sections", [])):
                return True
        return False
    if pid == "C05" and dis.get("kind") == "MISMATCH" and dis.get("op", "")[:2] in ("S ", "R ") and "TRESET" in dis.get("rest", []):
        return True  # the first timer of a height is part of what a (re)initialisation takes afresh
    if pid == "C06" and dis.get("kind") == "MISMATCH" and dis.get("op", "")[:2] in ("S ", "R "):
        return True  # N, F, M and the primary follow from the validator list read at the (re)initialisation
    kinds, secs = PROJ[pid]
    k = dis["kind"]
    if pid == "C11":
        if k in ("PANIC-IMPL-ONLY", "MODEL-PANIC", "MODEL-FATAL", "MODEL-FUEL", "FPPARSE"):
            return True
        return "inadmissible" in dis.get("tags", "")
    if k == "MISMATCH":
        rest = dis.get("rest", [])
        if all(x == "END" for x in rest):
            return True  # the model asks for a callback the implementation did not make: no kind to project on, every tie is concerned
        return any(x in kinds for x in rest)
    if k == "DIFF":
        if pid == "C05" and dis.get("op", "")[:2] in ("S ", "R ") and any(s in (5, 6, 7, 8, 9, 10) for s in dis.get("sections", [])):
            return True  # the payload tables and the last-seen table right after a (re)initialisation
        if pid == "C17" and dis.get("op", "")[:2] == "R " and 14 in dis.get("sections", []):
            return True  # the simulation calls Reset after every block: what Reset does to the kept payloads
        return any(s in secs for s in dis.get("sections", []))
    return True  # panics and model errors concern every property's tie


DIS_RE = re.compile(r"^DISAGREE run=(\d+) line=(\d+) node=(\d+) tags=(\S*) op=\[(.*?)\] kind=(\S+)(.*)$")


def parse_driver(out):
    dis, sigs, summ = [], {}, {}
    for line in out.split("\n"):
        if line.startswith("DISAGREE"):
            m = DIS_RE.match(line)
            if not m:
                dis.append({"kind": "UNPARSED", "raw": line[:300]})
                continue
            d = {"run": int(m.group(1)), "line": int(m.group(2)), "node": int(m.group(3)), "tags": m.group(4),
                 "op": m.group(5)[:200], "kind": m.group(6)}
            rest = m.group(7)
            mm = re.search(r"code_call=(\S+) rest=(\S+)", rest)
            if mm:
                d["code_call"] = mm.group(1)
                d["rest"] = mm.group(2).split(",")
            mm = re.search(r"pos=(\d+) of=(\d+)", rest)
            if mm:
                d["pos"], d["of"] = int(mm.group(1)), int(mm.group(2))
            mm = re.search(r"sections=(\S*)", rest)
            if mm:
                d["sections"] = [int(x) for x in mm.group(1).split(",") if x]
            dis.append(d)
        elif line.startswith("FPPARSE-ERROR"):
            dis.append({"kind": "FPPARSE", "raw": line[:300]})
        elif line.startswith("SIG "):
            p = line.split()
            sigs[p[1]] = int(p[2])
        elif line.startswith("SUMMARY"):
            p = line.split()
            summ = {"ops": int(p[2]), "callbacks": int(p[4]), "disagreements": int(p[6]), "distinct_signatures": int(p[8])}
    return dis, sigs, summ


def run_job(args):
    name, cmd, harness, driver, tmpdir = args
    t0 = time.time()
    hist = os.path.join(tmpdir, name + ".hist")
    err = os.path.join(tmpdir, name + ".err")
    res = {"name": name, "cmd": " ".join(cmd), "mon": [], "moncnt": {}, "stats": {}, "dis": [], "sigs": {}, "summary": {}, "samples": []}
    with open(hist, "w") as fo, open(err, "w") as fe:
        p = subprocess.run([harness] + cmd, stdout=fo, stderr=fe, timeout=1500)
    res["harness_rc"] = p.returncode
    run = -1
    lastop = ""
    with open(hist, errors="replace") as f:
        for line in f:
            if line.startswith("RUN "):
                run = int(line.split()[1])
                if len(res["samples"]) < 2:
                    res["samples"].append(line.strip())
            elif line.startswith("OP "):
                lastop = line.strip()[:160]
                if len(res["samples"]) < 6:
                    res["samples"].append(lastop)
            elif line.startswith("MON "):
                p = line.rstrip("\n").split(" ", 3)
                desc = line.split("|", 1)[1].strip() if "|" in line else ""
                res["mon"].append({"prop": p[1], "sig": p[2], "desc": desc[:400], "run": run, "op": lastop, "job": name, "cmd": res["cmd"]})
            elif line.startswith("MONCNT "):
                p = line.split()
                res["moncnt"][p[1]] = res["moncnt"].get(p[1], 0) + int(p[2])
    with open(err) as f:
        for line in f:
            if line.startswith("STAT "):
                p = line.split()
                res["stats"][p[1]] = res["stats"].get(p[1], 0) + int(p[2])
    p = subprocess.run([driver, hist], stdout=subprocess.PIPE, stderr=subprocess.STDOUT, text=True, errors="replace", timeout=1500)
    res["driver_rc"] = p.returncode
    dis, sigs, summ = parse_driver(p.stdout)
    if p.returncode != 0:
        dis.append({"kind": "DRIVER-CRASH", "raw": p.stdout[-300:]})
    for d in dis:
        d["job"] = name
        d["cmd"] = res["cmd"]
    res["dis"], res["sigs"], res["summary"] = dis[:200], sigs, summ
    res["dis_total"] = len(dis)
    res["wall_s"] = time.time() - t0
    os.remove(hist)
    os.remove(err)
    return res


def plan(tier, sd):
    """the jobs of a tier: (name, harness argv)"""
    jobs = [("scen", ["scen"]), ("fork", ["fork"])]
    if tier == "quick":
        shards, per, syncn = 16, 40, 30
    else:
        shards, per, syncn = 96, 250, 600
    for i in range(shards):
        jobs.append(("gen-%d" % i, ["gen", str(sd), str(i * per), str((i + 1) * per)]))
    nshift, pshift = (4, 25) if tier == "quick" else (32, 200)
    for i in range(nshift):
        jobs.append(("shift-%d" % i, ["shift", str(sd), str(i * pshift), str((i + 1) * pshift)]))
    for mode in ("c08", "c09s", "c09p", "c09r", "c09x", "c16"):
        k = max(1, syncn // 30)
        for j in range(k):
            a, b = j * (syncn // k), (j + 1) * (syncn // k)
            jobs.append(("sync-%s-%d" % (mode, j), ["sync", mode, str(sd), str(a), str(b)]))
    return jobs


def run_histories(tier, sd):
    h = build_harness()
    if not h["ok"]:
        return {"build_failed": "harness", "log": h["log"]}
    d = build_driver()
    if not d["ok"]:
        return {"build_failed": "driver", "log": d["log"]}
    key = "node-%s-%d-%s-%s" % (tier, sd, repo_hash(), verif_hash())

    def go():
        t0 = time.time()
        tmpdir = os.path.join(WORK, "tmp-%s" % key)
        os.makedirs(tmpdir, exist_ok=True)
        jobs = [(n, c, h["bin"], d["bin"], tmpdir) for n, c in plan(tier, sd)]
        with concurrent.futures.ThreadPoolExecutor(max_workers=NPROC) as ex:
            results = list(ex.map(run_job, jobs))
        try:
            os.rmdir(tmpdir)
        except OSError:
            pass
        return {"jobs": results, "wall_s": time.time() - t0, "harness_bin": h["bin"], "driver_bin": d["bin"]}
    return cached(key, go)


def aggregate(res):
    agg = {"ops": 0, "callbacks": 0, "dis": [], "mon": [], "moncnt": {}, "stats": {}, "sigs": {}, "samples": [], "runs": 0, "dis_total": 0}
    for j in res["jobs"]:
        s = j.get("summary") or {}
        agg["ops"] += s.get("ops", 0)
        agg["callbacks"] += s.get("callbacks", 0)
        agg["dis"] += j["dis"]
        agg["dis_total"] += j.get("dis_total", 0)
        agg["mon"] += j["mon"]
        for k, v in j["moncnt"].items():
            agg["moncnt"][k] = agg["moncnt"].get(k, 0) + v
        for k, v in j["stats"].items():
            agg["stats"][k] = agg["stats"].get(k, 0) + v
        for k, v in j["sigs"].items():
            agg["sigs"][k] = agg["sigs"].get(k, 0) + v
        if len(agg["samples"]) < 12:
            agg["samples"] += j["samples"][:3]
        if j.get("harness_rc", 0) != 0 or j.get("driver_rc", 0) != 0:
            agg["dis"].append({"kind": "JOB-FAILED", "job": j["name"], "cmd": j["cmd"], "raw": "harness rc=%s driver rc=%s" % (j.get("harness_rc"), j.get("driver_rc"))})
    return agg
