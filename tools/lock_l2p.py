"""lock_l2p.py: the renaming used to derive the pre-commit lock files (coq/theories/Node/SignP*.v) from the commit lock files
(SignL*.v, SignLNoCV.v, SignLCM.v): the roles of the two phases are exchanged (Commit <-> PreCommit, header <-> pre-header,
CSign -> CSetData, ...) and every identifier defined by those files gets a name of its own.  The output is a starting point only:
the derived files were then repaired by hand where the code is not symmetric (DESIGN.md section 0.2).  Not used by the checks."""
import re


def xform(s, drops=()):
    prot = {}

    def _m(m):
        k = '@@P%d@@' % len(prot)
        prot[k] = m.group(0)
        return k
    s = re.sub(r'\b[chdfyTK]_[A-Za-z]\w*', _m, s)   # lemma families that are not specific to a ghost keep their names
    for pat in drops:
        m = re.search(pat, s, re.S)
        assert m, pat
        s = s[:m.start()] + s[m.end():]
    swaps = [('MakeHeader cfg', 'MakePreHeader'), ('CreateBlock cfg', 'CreatePreBlock'), ('makeCommit cfg', 'makePreCommit'), ('sendCommit cfg', 'sendPreCommit'),
             ('verifyCommitPayloadsAgainstHeader cfg', 'verifyPreCommitPayloadsAgainstPreBlock'),
             ('t_MakeHeader', 't_MakePreHeader'), ('t_CreateBlock', 't_CreatePreBlock'), ('t_verifyCommits', 't_verifyPreCommits'), ('q_sendCommit', 'q_sendPreCommit')]
    for k, (a, b) in enumerate(swaps):
        s = s.replace(a, '@@A%d@@' % k).replace(b, '@@B%d@@' % k)
    for k, (a, b) in enumerate(swaps):
        s = s.replace('@@A%d@@' % k, b).replace('@@B%d@@' % k, a)
    one = [('CommitPayloads', 'PreCommitPayloads'), (r'\bheader\b', 'preheader'), ('commit_sig', 'precommit_data'), ('block_hash', 'preblock_hash'), ('block_verify', 'preblock_verify'),
           ('CSign', 'CSetData'), ('BCommit', 'BPreCommit'), (r'\bblockobj\b', 'preblockobj'), ('sel_NewBlock', 'sel_NewPreBlock'),
           (r'onCommit cfg', 'onPreCommit cfg'), ('t_onCommit', 't_onPreCommit'), ('t_sendPreCommit', 't_sendCommit'), ('t_makePreCommit', 't_makeCommit')]
    s = s.replace('PreCommitPayloads', '@@PCP@@')
    for a, b in one:
        s = re.sub(a, b, s)
    s = s.replace('@@PCP@@', 'CommitPayloads')
    s = s.replace('prepreblock_hash', 'preblock_hash').replace('prepreheader', 'preheader')
    ren = [(r'\bis_sign\b', 'is_setd'), (r'\bnsign_app\b', 'nset_app'), (r'\bnsign\b', 'nset'), (r'\bNoSign\b', 'NoSetd'), (r'\bnosign_nsign\b', 'nosetd_nset'),
           (r'\bsigned_commit', 'set_precommit'), (r'\bown\b', 'ownp'), (r'\bSg\b', 'Sp'), (r'\bo1\b', 'p1'), (r'\bo2\b', 'p2'), (r'\bo4\b', 'p4'),
           (r'\bI3g_pad\b', 'I7g_pad'), (r'\bI3g\b', 'I7g'), (r'\bI3s\b', 'I7s'), (r'\bI3v\b', 'I7v'), (r'\bI3\b', 'I7'), (r'\bSame3z\b', 'Same7z'), (r'\bSame3\b', 'Same7'), (r'\bi3_', 'i7_'),
           (r'\bk3_go\b', 'k7_go'), (r'\bk3_frame\b', 'k7_frame'), (r'\bk3\b', 'k7'), (r'\bleaf3\b', 'leaf7'), (r'\bkqdb\b', 'krdb'), (r'\bkqidb\b', 'kridb'), (r'\bkzdb\b', 'kzpdb'),
           (r'\bkqi_go\b', 'kri_go'), (r'\bkqi_leaf\b', 'kri_leaf'), (r'\bkqi_', 'kri_'), (r'\bkqi\b', 'kri'), (r'\bkq_go\b', 'kr_go'), (r'\bkq_', 'kr_'), (r'\bkq\b', 'kr'),
           (r'\bkz_go\b', 'kzp_go'), (r'\bkz_', 'kzp_'), (r'\bkz\b', 'kzp'), (r'\bZ0\b', 'Z0p'), (r'\bICq\b', 'ICr'),
           (r'\bt_(?=[A-Za-z])', 'u_'), (r'\bmh3_spec\b', 'mph7_spec'), (r'\bx_k3\b', 'x_k7'), (r'\bx_mh3\b', 'x_mph7'), (r'\bq_(?=[a-zA-Z])', 'pq_'), (r'\bz_(?=[a-zA-Z])', 'pz_'), (r'\bi_(?=[a-zA-Z])', 'pi_'),
           (r'\bown_verifies\b', 'ownp_verifies'), (r'\bos_spec\b', 'os_specp'), (r'\bunsigned_when_no_own_commit\b', 'unset_when_no_own_precommit'), (r'\bunsigned_when_no_header\b', 'unset_when_no_preheader'),
           (r'\bFresh3_I3g\b', 'Fresh7_I7g'), (r'\bI7g_Fresh3\b', 'I7g_Fresh7'), (r'\bFresh3\b', 'Fresh7'), (r'\binit_0\b', 'init_0p'), (r'\bfresh_Start\b', 'fresh_Startp'), (r'\bfresh_Reset\b', 'fresh_Resetp'),
           (r'\bkr_os_commit\b', 'kr_os_precommit'), (r'\bepoch_inv\b', 'epoch_invp'), (r'\bone_signature_per_epoch\b', 'one_precommit_per_epoch'), (r'\bcommit_lock\b', 'precommit_lock'),
           (r'\breset_0\b', 'reset_0p'), (r'\breset_q\b', 'reset_r'), (r'\bsolvek3\b', 'solvek7'), (r'\bepoch_validators\b', 'epoch_validatorsp'),
           (r'\bpi_h2\b', 'i_p2'), (r'\bpi_pf\b', 'i_pf'),
           (r'Auto3', 'Auto7'), (r'Manual3', 'Manual7'), (r'Level1b', 'LevelP1b'), (r'Level1\b', 'LevelP1'), (r'ResetL', 'ResetP'), (r'RecL', 'RecP'), (r'WithIcL', 'WithIcP'), (r'ApiL', 'ApiP')]
    for a, b in ren:
        s = re.sub(a, b, s)
    s = re.sub(r'\b(u_\w+) cfg(?= [a-z_]*u_| :|\n)', r'\1', s)
    for k, v in prot.items():
        s = s.replace(k, v)
    return s
