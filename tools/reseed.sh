#!/bin/bash
# reseed.sh [ids...] : regression over the seeded changes - applies each /verif/seeded/<id>/patch.diff to /repo, runs the quick
# check that meta.json names as the one catching it (the first "quick Cxx" in caught_by; else the seed's own property),
# reverts, and prints one line per seed: CAUGHT (concrete replay) / CAUGHT-WEAK (no-failing-input-found) / MISSED.
cd /verif
IDS=${@:-$(ls seeded)}
for id in $IDS; do
  [ -f seeded/$id/patch.diff ] || continue
  prop=$(python3 - "$id" <<'PY'
import json,re,sys
m=json.load(open('/verif/seeded/%s/meta.json'%sys.argv[1]))
c=m.get('caught_by','')
r=re.search(r'quick (C\d\d)',c)
print(r.group(1) if r else m.get('property',sys.argv[1][:3]))
PY
)
  git -C /repo status --short | grep -v '^??' | grep -q . && { echo "/repo not clean"; exit 1; }
  git -C /repo apply /verif/seeded/$id/patch.diff || { echo "$id APPLY-FAILED"; continue; }
  out=$(./check $prop --tier quick 2>&1 | grep "^VIOLATION" | head -1)
  git -C /repo checkout -- .
  if [ -z "$out" ]; then echo "$id $prop MISSED"
  elif echo "$out" | grep -q "no-failing-input-found"; then echo "$id $prop CAUGHT-WEAK"
  else echo "$id $prop CAUGHT"; fi
done
