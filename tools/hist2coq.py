#!/usr/bin/env python3
"""hist2coq.py <history-file> <run> <node> <Name> : turns the API calls one node made in one recorded run of the harness
(OP / C lines) into a Gallina history  Definition <Name> : list (event * list call).  The witness files under
coq/theories/Witness are produced with it; Coq then replays the history through the model by vm_compute."""
import sys


class T:
    def __init__(self, toks): self.t = toks; self.i = 0
    def next(self):
        x = self.t[self.i]; self.i += 1; return x
    def zi(self): return int(self.next())
    def bb(self): return self.next() != "0"


def z(n): return "(%d)" % n if n < 0 else str(n)
def b(x): return "true" if x else "false"
def lst(xs): return "[" + "; ".join(xs) + "]"
def hsh(t): return lst([z(t.zi()) for _ in range(t.zi())])


def body0(code, t):
    if code == 0:
        nv, r, s = t.zi(), t.zi(), t.zi(); return "BChangeView %s %s %s" % (z(nv), z(r), z(s))
    if code == 32:
        s, n, k = t.zi(), t.zi(), t.zi(); return "BPrepareRequest %s %s %s" % (z(s), z(n), lst([hsh(t) for _ in range(k)]))
    if code == 33: return "BPrepareResponse %s" % hsh(t)
    if code == 48:
        k = t.zi(); return "BCommit (mkSig %s %s)" % (z(k), hsh(t))
    if code == 49:
        k = t.zi(); return "BPreCommit (mkSig %s %s)" % (z(k), hsh(t))
    if code == 64: return "BRecoveryRequest %s" % z(t.zi())
    raise ValueError(code)


def payload0(t):
    code, h, v, i = t.zi(), t.zi(), t.zi(), t.zi()
    return "mkP0 %s %s %s (%s)" % (z(h), z(v), z(i), body0(code, t))


def payload(t):
    code, h, v, i = t.zi(), t.zi(), t.zi(), t.zi()
    if code == 65:
        k = t.zi(); return "(mkP %s %s %s (BRecoveryMessage %s))" % (z(h), z(v), z(i), lst([payload0(t) for _ in range(k)]))
    return "(mkP %s %s %s (B0 (%s)))" % (z(h), z(v), z(i), body0(code, t))


MT = {0: "ChangeViewT", 32: "PrepareRequestT", 33: "PrepareResponseT", 48: "CommitT", 49: "PreCommitT", 64: "RecoveryRequestT", 65: "RecoveryMessageT"}


def call(t):
    k = t.next()
    if k == "NOW": return "CNow %s" % z(t.zi())
    if k == "HEIGHT": return "CHeight %s" % z(t.zi())
    if k == "PREV": return "CPrevHash %s" % hsh(t)
    if k == "VALS": return "CValidators %s" % lst([z(t.zi()) for _ in range(t.zi())])
    if k == "KEYPAIR":
        i = t.zi(); return "CKeyPair %s %s" % (z(i), z(t.zi()))
    if k == "WO": return "CWatchOnly %s" % b(t.bb())
    if k == "TPB": return "CTimePerBlock %s" % z(t.zi())
    if k == "MAXTPB": return "CMaxTimePerBlock %s" % z(t.zi())
    if k == "GETVER": return "CGetVerified %s" % lst([z(t.zi()) for _ in range(t.zi())])
    if k == "GETTX":
        h = hsh(t); return "CGetTx %s (Some %s)" % (h, z(t.zi())) if t.bb() else "CGetTx %s None" % h
    if k in ("VBLOCK", "VPREBLOCK"):
        h = hsh(t); n = t.bb(); return "%s %s %s %s" % ("CVerifyBlock" if k == "VBLOCK" else "CVerifyPreBlock", h, b(n), b(t.bb()))
    if k in ("VPREQ", "VPRESP", "VCOMMIT", "VPRECOMMIT"):
        p = payload(t); return "%s %s %s" % ({"VPREQ": "CVerifyPrepareRequest", "VPRESP": "CVerifyPrepareResponse", "VCOMMIT": "CVerifyCommit", "VPRECOMMIT": "CVerifyPreCommit"}[k], p, b(t.bb()))
    if k == "NEWBLOCK": return "CNewBlock %s" % b(t.bb())
    if k == "NEWPREBLOCK": return "CNewPreBlock %s" % b(t.bb())
    if k == "NONCE": return "CNonce %s" % z(t.zi())
    if k == "RECV":
        c, f, h = t.zi(), t.zi(), t.zi(); return "CRecv %s %s %s %s" % (MT[c], z(f), z(h), z(t.zi()))
    if k == "BCAST": return "CBroadcast %s" % payload(t)
    if k == "TRESET":
        h, v = t.zi(), t.zi(); return "CTimerReset %s %s %s" % (z(h), z(v), z(t.zi()))
    if k == "TEXTEND": return "CTimerExtend %s" % z(t.zi())
    if k == "THEIGHT": return "CTimerHeight %s" % z(t.zi())
    if k == "TVIEW": return "CTimerView %s" % z(t.zi())
    if k in ("PBLOCK", "PPREBLOCK"):
        h = hsh(t); return "%s %s %s" % ("CProcessBlock" if k == "PBLOCK" else "CProcessPreBlock", h, b(t.bb()))
    if k == "REQTX": return "CRequestTx %s" % lst([hsh(t) for _ in range(t.zi())])
    if k == "SUB": return "CSubscribe"
    if k == "STOP": return "CStopTxFlow"
    if k == "SIGN": return "CSign %s" % hsh(t)
    if k == "SETDATA": return "CSetData %s" % hsh(t)
    if k == "FATAL": return "CFatal"
    raise ValueError(k)


def event(t):
    k = t.next()
    if k == "S": return "EStart %s" % z(t.zi())
    if k == "R": return "EReset %s" % z(t.zi())
    if k == "M": return "EReceive %s" % payload(t)
    if k == "T":
        h = t.zi(); return "ETimeout %s %s" % (z(h), z(t.zi()))
    if k == "X": return "ETransaction %s" % z(t.zi())
    if k == "N": return "ENewTransaction"
    raise ValueError(k)


def main():
    f, run, node, name = sys.argv[1], int(sys.argv[2]), int(sys.argv[3]), sys.argv[4]
    cur_run, cfgline, out, cur = None, None, [], None
    for line in open(f, errors="replace"):
        toks = line.split()
        if not toks: continue
        if toks[0] == "RUN":
            cur_run = int(toks[1])
            if cur_run == run: cfgline = toks
            continue
        if cur_run != run: continue
        if toks[0] == "OP":
            cur = None
            if int(toks[1]) == node:
                cur = [event(T(toks[2:])), []]; out.append(cur)
        elif toks[0] == "C" and cur is not None:
            cur[1].append(call(T(toks[1:])))
        elif toks[0] in ("FP", "PANIC"):
            cur = None
    # RUN <id> N <n> CFG <inc> <amev> <dyn>
    inc, amev, dyn = int(cfgline[5]), int(cfgline[6]), cfgline[7] != "0"
    print("(* generated by tools/hist2coq.py from harness run %d, node %d *)" % (run, node))
    print("Definition %s_cfg : config := mkCfg %s %s %s." % (name, z(inc), z(amev), b(dyn)))
    print("Definition %s : list (event * list call) :=\n  [" % name)
    print(";\n".join("   (%s,\n    %s)" % (e, lst(cs)) for e, cs in out))
    print("  ].")


main()
