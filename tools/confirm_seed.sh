#!/bin/bash
# confirm_seed.sh <ID> : verifies a seeded change in /tmp/wt/<ID> (demo passes without it, fails with it, suite passes with it)
# and stores it under /verif/seeded/<ID>/ (patch.diff, demo, meta.json). Does not touch /repo.
set -u
ID=$1; WT=/tmp/wt/$ID; OUT=/verif/seeded/$ID
export GOFLAGS=-mod=mod GOPROXY=off GOSUMDB=off GOTOOLCHAIN=local
cd $WT || exit 1
[ -f _seed/patch.diff ] || { echo "no _seed/patch.diff"; exit 1; }
DEMO=$(python3 -c "import json;print(json.load(open('_seed/meta.json')).get('demo_location','zz_seed_demo_test.go'))" 2>/dev/null)
DEMOF=$(find . -name 'zz_seed_demo_test.go' -not -path './_seed/*' | head -1)
[ -n "$DEMOF" ] || { echo "demo file not found"; exit 1; }
PKG=./$(dirname $DEMOF)
git checkout -q -- . 2>/dev/null   # the agent leaves the change reverted; make sure (never stash: the stash list is shared with /repo)
echo "== demo on unchanged code"; go1.26 test -vet=off -count=1 -run TestSeedDemo $PKG 2>&1 | tail -2; R1=${PIPESTATUS[0]}
git apply _seed/patch.diff || { echo "patch does not apply"; exit 1; }
echo "== demo with the change"; go1.26 test -vet=off -count=1 -run TestSeedDemo $PKG 2>&1 | tail -3; R2=${PIPESTATUS[0]}
echo "== suite with the change (without the demo)"; go1.26 test -vet=off -count=1 -skip TestSeedDemo ./... 2>&1 | tail -7; R3=${PIPESTATUS[0]}
echo "R1=$R1 (want 0) R2=$R2 (want !=0) R3=$R3 (want 0)"
if [ $R1 -eq 0 ] && [ $R2 -ne 0 ] && [ $R3 -eq 0 ]; then
  mkdir -p $OUT; cp _seed/patch.diff $OUT/patch.diff; cp $DEMOF $OUT/zz_seed_demo_test.go; cp _seed/meta.json $OUT/meta.agent.json
  echo "CONFIRMED $ID"
else echo "NOT CONFIRMED $ID"; fi
