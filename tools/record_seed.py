#!/usr/bin/env python3
"""record_seed.py <ID> <property> <caught-by text> : writes /verif/seeded/<ID>/meta.json from the agent's meta and what was run here"""
import json, sys, os
sid, prop, caught = sys.argv[1], sys.argv[2], sys.argv[3]
d = "/verif/seeded/" + sid
a = {}
if os.path.exists(d + "/meta.agent.json"):
    try: a = json.load(open(d + "/meta.agent.json"))
    except Exception: a = {}
m = {
  "id": sid, "property": prop,
  "summary": a.get("summary", ""), "needs_to_manifest": a.get("needs_to_manifest", ""),
  "files_changed": a.get("files_changed", []), "demo": "zz_seed_demo_test.go (place at: %s)" % a.get("demo_location", "module root, package dbft_test"),
  "confirmed_here": "tools/confirm_seed.sh %s in a scratch worktree: TestSeedDemo passes on the unchanged code, fails with patch.diff; `go1.26 test -vet=off -count=1 -skip TestSeedDemo ./...` passes with patch.diff" % sid,
  "checked_here": "tools/try_seed.sh %s (git -C /repo apply patch.diff; ./check <ID> --tier quick; git -C /repo checkout -- .)" % sid,
  "caught_by": caught,
  "origin": "independent sub-agent given only the property text and a scratch worktree",
}
json.dump(m, open(d + "/meta.json", "w"), indent=1)
if os.path.exists(d + "/meta.agent.json"): os.remove(d + "/meta.agent.json")
print("recorded", sid)
