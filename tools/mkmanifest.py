#!/usr/bin/env python3
"""Regenerates /verif/MANIFEST.json from lib/props.py (levels, techniques) - run after editing the table."""
import json, os, sys
V = os.path.dirname(os.path.dirname(os.path.abspath(__file__)))
sys.path.insert(0, os.path.join(V, "lib"))
import props

hooks = ["9a21e26", "b2a0e3f"]
checks = []
for pid, p in sorted(props.PROPS.items()):
    checks.append({
        "property_id": pid,
        "quick_cmd": "./check %s --tier quick" % pid,
        "thorough_cmd": "./check %s --tier thorough" % pid,
        "evidence_file": "/verif/evidence/%s.json" % pid,
        "replay_cmd_template": "./check %s --replay {path}" % pid,
        "engine": "coq-" + p["family"],
        "level_claimed": {"category": p["level"], "text": p.get("level_text", ""), "design_ref": p.get("design_ref", "DESIGN.md section 6")},
        "level_note": p.get("level_note", ""),
        "technique": p.get("technique", "machine-checked proof in Coq 8.16.1 on an executable Gallina model + correspondence check against the Go code"),
    })
m = {
    "version": 1,
    "setup_cmd": "./setup.sh",
    "hooks": {
        "guard": "verif",
        "enable": "go build -tags verif (the harness module /verif/harness replaces github.com/nspcc-dev/dbft by /repo)",
        "baseline_off_cmd": "cd /repo && GOFLAGS=-mod=mod GOPROXY=off GOSUMDB=off go test -mod=mod -json -vet=off -count=1 -timeout 25m ./...",
        "source_commits": hooks,
        "add_only": True,
    },
    "engines": [
        {"name": "coq-node", "path": "coq/theories/Node", "serves_properties": [k for k, v in sorted(props.PROPS.items()) if v["family"] == "node"],
         "kind_free_text": "hand-written executable Gallina model of dbft.go/check.go/send.go/context.go/helpers.go/rtt.go; theorems in coq/theories/Properties; tie: Go harness histories replayed call by call through the extracted model (coq/extraction/driver.ml) + Go monitors"},
        {"name": "coq-quorum", "path": "coq/theories/Quorum", "serves_properties": ["C06"], "kind_free_text": "Quorum.v theorems for every N; tie: real Context values vs extracted functions"},
        {"name": "coq-timer", "path": "coq/theories/Timer", "serves_properties": ["C18"], "kind_free_text": "timer/timer.go state machine over an abstract runtime"},
        {"name": "coq-ref", "path": "coq/theories/Ref", "serves_properties": ["C19"], "kind_free_text": "Merkle/SHA-256/codec models of internal/*"},
        {"name": "coq-sim", "path": "coq/theories/Sim", "serves_properties": ["C17"], "kind_free_text": "driver loop of internal/simulation"},
        {"name": "coq-tla", "path": "tla2coq", "serves_properties": ["C20"], "kind_free_text": "translator SANY XML -> Gallina, regenerated on every run; proofs on the generated models; TLC edge cross-check"},
    ],
    "checks": checks,
    "not_applicable": [],
    "notes": "All checks share one build and one generated history set per (tree hash, tier, seed) under /verif/.work (flock-protected cache). known_findings.json lists genuine defects recorded instead of repaired.",
}
json.dump(m, open(os.path.join(V, "MANIFEST.json"), "w"), indent=1)
print("MANIFEST.json written:", len(checks), "checks")
