#!/bin/bash
# try_seed.sh <ID> [props...] : applies /verif/seeded/<ID>/patch.diff to /repo, runs the quick checks, reverts.
ID=$1; shift; PROPS=${@:-$(echo $ID | cut -c1-3)}
cd /repo && git status --short | grep -v '^??' | grep . && { echo "/repo not clean"; exit 1; }
git -C /repo apply /verif/seeded/$ID/patch.diff || exit 1
cd /verif
for p in $PROPS; do
  echo "--- $p on seeded $ID"; ./check $p --tier quick 2>&1 | grep -v "^WARNING\|^KNOWN-FINDING" | cut -c1-300; echo "exit=${PIPESTATUS[0]}"
done
git -C /repo checkout -- .
