#!/bin/bash
# evidence_all.sh : re-runs all 20 quick checks on /repo's current (unchanged!) tree in four parallel lanes and prints one
# line per check; evidence/<id>.json is rewritten by each. Needed after every change under coq/ harness/ lib/ tla2coq/ or
# known_findings.json (they enter the cache key of every check). About 10 minutes (C03: 4.5 min of Print Assumptions; C20: 8 min).
cd /verif
git -C /repo status --short | grep -v '^??' | grep -q . && { echo "/repo not clean"; exit 1; }
L=${TMPDIR:-/tmp}/evidence_all.$$; mkdir -p $L
lane(){ for p in "$@"; do s=$(date +%s); ./check $p --tier quick > $L/$p.log 2>&1; echo "$p exit=$? $(( $(date +%s)-s ))s violations=$(grep -c '^VIOLATION' $L/$p.log)"; done; }
lane C03 C19 C06 C17 &
lane C01 C02 C04 C05 C07 C08 &
lane C09 C10 C11 C12 C13 C14 C15 C16 &
lane C20 C18 &
wait
rm -rf $L
