#!/bin/bash
# coqchk.sh : re-checks the compiled development with Coq's independent checker and prints the axioms it relies on.
# Works on a scratch copy (coqchk is run against the .vo files of a full build made there) and removes it afterwards.
set -u
T=$(mktemp -d /tmp/coqchk.XXXXXX)
trap 'rm -rf "$T"' EXIT
cp -r /verif/coq/_CoqProject /verif/coq/theories "$T"/
cd "$T" || exit 1
find . -name '*.vo' -o -name '*.vok' -o -name '*.vos' -o -name '*.glob' -o -name '.*.aux' | xargs rm -f
coq_makefile -f _CoqProject -o Makefile >/dev/null 2>&1
timeout 3600 make -j16 >build.log 2>&1 || { tail -20 build.log; echo "coqchk: build failed"; exit 1; }
mods=$(grep "^theories" _CoqProject | sed 's#^theories/##; s#\.v$##; s#/#.#g' | sed 's/^/DbftV./' | tr '\n' ' ')
timeout 7200 coqchk -silent -o -Q theories DbftV $mods 2>&1 | tail -25
exit ${PIPESTATUS[0]}
